#!/venv/bin/python
"""Keeps the SimFS stub honest: runs the same fault-free experiment once on the real tf.io.gfile (temp dir under
/dev/shm) and once on SimFS, and compares the resulting files (names and bytes of checkpoints and .tsv files), plus
the visibility semantics of a GFile write that the crash model relies on.  Not part of the registered checks (the
real TensorFlow import costs ~35 s); run by hand: tools/realtf_smoke.py
"""
import json
import os
import shutil
import subprocess
import sys
import tempfile

VERIF = os.path.dirname(os.path.dirname(os.path.abspath(__file__)))
CONFIGS = [
    {'num_rounds': 5, 'ckpt_freq': 2, 'keep': 1, 'eval_freq': 0, 'n_final': 1},
    {'num_rounds': 4, 'ckpt_freq': 1, 'keep': 3, 'eval_freq': 0, 'n_final': 2},
    {'num_rounds': 3, 'ckpt_freq': 3, 'keep': 2, 'eval_freq': 0, 'n_final': 0},
]

CHILD = r'''
import sys, json, os, hashlib
sys.path.insert(0, %(verif)r)
mode = sys.argv[1]
cfgs = json.loads(sys.argv[2])
out = []
if mode == 'sim':
  from vsim import boot
  boot.boot()
else:
  import tensorflow as tf
import fedjax
from fedjax.training import federated_experiment as fe
from fedjax.training import logging as flog
flog.Logger.log = lambda self, *a, **k: None     # tf.summary needs tensorboard, absent here; not part of the comparison
from checks import c09
for cfg in cfgs:
  cfg = dict({'pad': 5000, 'n_clients': 4, 'sampler_seed': 7, 'algo': 'count', 'junk': [], 'cohort': 2, 'n_periodic': 0}, **cfg)
  if mode == 'sim':
    fs = c09._fresh_fs(cfg)
    root = c09.ROOT
  else:
    root = sys.argv[3] + '/exp%%d' %% len(out)
    os.makedirs(root)
  rec = c09._Recorder()
  import types
  saved_root = c09.ROOT
  c09.ROOT = root
  try:
    alg, sampler, config, periodic, final_map = c09._build(cfg, rec, None, lambda w: None)
    state = fe.run_federated_experiment(alg, alg.init(), sampler, config, periodic, final_map)
  finally:
    c09.ROOT = saved_root
  if mode == 'sim':
    files = {os.path.basename(p): hashlib.sha256(d).hexdigest()[:16] for p, d in fs.files.items()}
  else:
    files = {n: hashlib.sha256(open(os.path.join(root, n), 'rb').read()).hexdigest()[:16]
             for n in sorted(os.listdir(root)) if os.path.isfile(os.path.join(root, n))}
  out.append(files)
# visibility semantics of a GFile write (real only)
vis = None
if mode == 'real':
  p = sys.argv[3] + '/probe'
  f = tf.io.gfile.GFile(p, 'wb')
  a = os.path.exists(p)
  f.write(b'x' * 10000)
  b = os.path.getsize(p) if os.path.exists(p) else -1
  f.flush()
  c = os.path.getsize(p)
  f.close()
  vis = {'exists_before_first_write': a, 'size_after_write_before_flush': b, 'size_after_flush': c}
print('@@' + json.dumps({'files': out, 'visibility': vis}))
'''


def run(mode, tmp):
  env = dict(os.environ, PYTHONPATH=VERIF, TF_CPP_MIN_LOG_LEVEL='3')
  r = subprocess.run(['/venv/bin/python', '-c', CHILD % {'verif': VERIF}, mode, json.dumps(CONFIGS), tmp],
                     capture_output=True, text=True, env=env, timeout=1200)
  for line in r.stdout.splitlines():
    if line.startswith('@@'):
      return json.loads(line[2:])
  raise RuntimeError(r.stderr[-2000:])


def main():
  tmp = tempfile.mkdtemp(dir='/dev/shm')
  try:
    sim, real = run('sim', tmp), run('real', tmp)
  finally:
    shutil.rmtree(tmp, ignore_errors=True)
  ok = True
  for i, (a, b) in enumerate(zip(sim['files'], real['files'])):
    same = a == b
    ok &= same
    print(f'config {i}: {"same files and bytes" if same else "DIFFERENT"}: sim={sorted(a)} real={sorted(b)}')
    if not same:
      print('  sim ', a)
      print('  real', b)
  v = real['visibility']
  print('real GFile visibility:', v)
  model_ok = (not v['exists_before_first_write']) and 0 <= v['size_after_write_before_flush'] <= 10000 and v['size_after_flush'] == 10000
  print('SimFS model (file appears at first write, a prefix is visible before flush, all after flush):', 'consistent' if model_ok else 'INCONSISTENT')
  return 0 if ok and model_ok else 1


if __name__ == '__main__':
  sys.exit(main())
