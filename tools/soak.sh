#!/bin/sh
# tools/soak.sh <first_seed> <last_seed> [tier] : runs every check at several VERIF_SEED values on the unchanged tree;
# any non-zero exit is printed as ALARM (false-alarm hunt / soak). Evidence is not written (--no-evidence).
cd "$(dirname "$0")/.."
tier=${3:-quick}
for seed in $(seq "$1" "$2"); do
  for id in ${SOAK_IDS:-C01 C02 C08 C09 C10 C11 C12 C13 C17 C19}; do
    out=$(VERIF_SEED=$seed VERIF_REPLAY_DIR=/dev/shm/soak-replays ./check $id --tier $tier --no-evidence 2>&1)
    rc=$?
    line=$(echo "$out" | grep "scenarios=" | tail -1)
    if [ $rc -ne 0 ]; then
      echo "ALARM seed=$seed $id rc=$rc"
      echo "$out" | grep -E "VIOLATION|violation|HARNESS" | head -5
    else
      echo "ok seed=$seed $id $line"
    fi
  done
done
