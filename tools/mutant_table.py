"""(property, name, [(file relative to repo root, old, new)], note).  Applied to a scratch copy only."""
FE = 'fedjax/training/federated_experiment.py'
CK = 'fedjax/training/checkpoint.py'
DL = 'fedjax/datasets/downloads.py'

MUTANTS = [
    # ---------------------------------------------------------------- C09
    ('C09', 'start_round_eq_last', [(FE, 'start_round_num = last_round_num + 1', 'start_round_num = last_round_num')],
     'resumed run repeats the checkpointed round'),
    ('C09', 'drop_set_round_num', [(FE, '  client_sampler.set_round_num(start_round_num)\n', '  pass\n')],
     'sampler not re-seated after resume'),
    ('C09', 'keep_plus_one', [(CK, '[:-keep]', '[:-keep - 1]')], 'retains keep+1 checkpoints'),
    ('C09', 'keep_oldest', [(CK, '_get_checkpoint_paths(base_path)[:-keep]', '_get_checkpoint_paths(base_path)[keep:]')],
     'deletes the newest checkpoints instead of the oldest'),
    ('C09', 'load_oldest', [(CK, 'latest_checkpoint_path = all_checkpoint_paths[-1]', 'latest_checkpoint_path = all_checkpoint_paths[0]')],
     'loads the oldest checkpoint'),
    ('C09', 'lexical_sort', [(CK, 'return sorted(checkpoint_paths, key=sort_key)', 'return sorted(checkpoint_paths, key=lambda p: str(int(p.split(base_path)[-1])))')],
     'orders checkpoints lexically by unpadded number (9 > 10)'),
    ('C09', 'no_digit_filter', [(CK, "pattern = base_path + r'[0-9]{8}$'", "pattern = base_path + r'.*[0-9]$'")],
     'junk files ending in a digit are taken for checkpoints'),
    ('C09', 'final_eval_round_plus_one', [(FE, '    metrics = eval_fn(state, round_num)\n    if metrics:\n      metrics_path', '    metrics = eval_fn(state, config.num_rounds + 1)\n    if metrics:\n      metrics_path')],
     'final evaluation given num_rounds+1 in EVERY run, interrupted or not: resumed == uninterrupted still holds (expected to SURVIVE; final_round_num_off is the variant that breaks the property)'),
    ('C09', 'undo_atomic_rename', [(CK, "  tmp_checkpoint_path = checkpoint_path + '.tmp'\n", "  tmp_checkpoint_path = checkpoint_path\n"),
                                   (CK, '  tf.io.gfile.rename(tmp_checkpoint_path, checkpoint_path, overwrite=True)\n', '')],
     're-introduces the in-place checkpoint write (D2)'),
    ('C09', 'tmp_name_matches_filter', [(CK, "checkpoint_path + '.tmp'", "f'{base_path}{round_num + 50000000:08d}'")],
     'temporary name is itself accepted by the 8-digit filter'),
    ('C09', 'undo_round_num_init', [(FE, '  round_num = start_round_num - 1\n', '')], 're-introduces D1'),
    ('C09', 'final_round_num_off', [(FE, '  round_num = start_round_num - 1\n', '  round_num = start_round_num\n')],
     'final evaluation after a resume-at-end sees round+1'),
    ('C09', 'skip_first_round_ckpt_then_eval_order', [(FE, 'round_num == start_round_num or\n        round_num % config.checkpoint_frequency == 0)', 'round_num % config.checkpoint_frequency == 0)')],
     'benign: checkpoint schedule change only (expected to SURVIVE: no property clause fixes the schedule)'),
    # ---------------------------------------------------------------- C19
    ('C19', 'download_in_place', [(DL, "with open(path + '.partial', 'wb') as fo:", "with open(path, 'wb') as fo:"),
                                  (DL, "    os.rename(path + '.partial', path)\n", '')],
     'download straight into the final name'),
    ('C19', 'rename_before_loop', [(DL, "      block_size = 1 << 18\n", "      block_size = 1 << 18\n      os.rename(path + '.partial', path)\n"),
                                   (DL, "          f'{num_bytes}.')\n    os.rename(path + '.partial', path)\n", "          f'{num_bytes}.')\n")],
     'renames the partial file before the body is written'),
    ('C19', 'resume_partial_without_refetch', [(DL, "  if os.path.exists(path):\n    log(f'Reusing", "  if os.path.exists(path + '.partial'):\n    os.rename(path + '.partial', path)\n  if os.path.exists(path):\n    log(f'Reusing")],
     'a stale .partial is promoted to the final name'),
    ('C19', 'skip_raise_for_status', [(DL, '      r.raise_for_status()\n', '')], 'HTTP error body cached as the file'),
    ('C19', 'undo_length_check', [(DL, '    if num_bytes != length:\n', '    if False:\n')], 're-introduces D11'),
    ('C19', 'undo_decompress_partial', [(DL, "      with open(decompressed_path + '.partial', 'wb') as fo:", "      with open(decompressed_path, 'wb') as fo:"),
                                        (DL, "    os.rename(decompressed_path + '.partial', decompressed_path)\n", '')],
     're-introduces D3'),
    ('C19', 'decompress_rename_inside_with', [(DL, "        shutil.copyfileobj(fi, fo)\n    os.rename(decompressed_path + '.partial', decompressed_path)\n",
                                               "        os.rename(decompressed_path + '.partial', decompressed_path)\n        shutil.copyfileobj(fi, fo)\n")],
     'renames the decompressed partial before the copy'),
    ('C19', 'append_mode_partial', [(DL, "with open(path + '.partial', 'wb') as fo:", "with open(path + '.partial', 'ab') as fo:")],
     'a stale .partial is appended to instead of overwritten'),
    ('C19', 'swallow_errors', [(DL, "    if num_bytes != length:\n      raise IOError(", "    if num_bytes != length and num_bytes == 0:\n      raise IOError(")],
     'length check only when nothing was received'),
    ('C19', 'always_redownload', [(DL, "  if os.path.exists(path):\n    log(f'Reusing cached file {path!r}')\n  else:\n    log(f'Downloading", "  if False:\n    log(f'Reusing cached file {path!r}')\n  else:\n    log(f'Downloading")],
     'complete cached file is fetched again (network touched on reuse)'),
]

FEC = 'fedjax/core/for_each_client.py'
MUTANTS += [
    # ---------------------------------------------------------------- C02
    ('C02', 'backend_choice_not_thread_local', [(FEC, 'class BackendChoice(threading.local):', 'class BackendChoice(object):')],
     'backend selection shared by all threads'),
    ('C02', 'no_finally_restore', [(FEC, "  old = _BACKEND_CHOICE.backend\n  try:\n    set_for_each_client_backend(backend)\n    yield\n  finally:\n    set_for_each_client_backend(old)\n",
                                    "  old = _BACKEND_CHOICE.backend\n  set_for_each_client_backend(backend)\n  yield\n  set_for_each_client_backend(old)\n")],
     'context not restored when the body raises'),
    ('C02', 'save_old_after_set', [(FEC, "  old = _BACKEND_CHOICE.backend\n  try:\n    set_for_each_client_backend(backend)\n    yield\n",
                                    "  try:\n    set_for_each_client_backend(backend)\n    old = _BACKEND_CHOICE.backend\n    yield\n")],
     'context exit re-installs its own backend'),
    ('C02', 'pmap_no_state_mask', [(FEC, "      next_state = jax.tree_util.tree_map(\n          functools.partial(jnp.where, mask), next_state, state\n      )\n", "")],
     'padding batches update the state'),
    ('C02', 'pmap_no_step_result_truncation', [(FEC, 'step_results[: block.num_batches[i]],', 'step_results,')],
     'padding step results are visible'),
    ('C02', 'pmap_yield_padding_clients', [(FEC, "          if not block.client_mask[i]:\n            continue\n", "")],
     'padding clients are yielded'),
    ('C02', 'jit_no_copy_before_donation', [(FEC, 'return jax.tree_util.tree_map(jnp.copy, state)', 'return state')],
     'initial state may alias caller input and gets donated - NOT OBSERVABLE on this jax/CPU: jit outputs never share a buffer with their inputs here (probed), so the caller input survives (expected to SURVIVE)'),
    ('C02', 'lazy_backend_resolution', [(FEC, "  for_each_client_backend_ = get_for_each_client_backend()\n  if with_step_result:\n    return for_each_client_backend_(client_init, client_step, client_final)\n",
                                         "  if with_step_result:\n    def run_lazy(shared_input, clients):\n      yield from get_for_each_client_backend()(client_init, client_step, client_final)(shared_input, clients)\n    return run_lazy\n  for_each_client_backend_ = get_for_each_client_backend()\n"),
                                        ],
     'with_step_result path resolves the backend at iteration time (only that path)'),
    ('C02', 'lazy_backend_resolution_plain', [(FEC, "  func = for_each_client_backend_(client_init, client_step_with_result,\n                                  client_final)\n\n  def run(shared_input, clients):\n    for client_id, client_output, _ in func(shared_input, clients):\n",
                                               "  def run(shared_input, clients):\n    func = get_for_each_client_backend()(client_init, client_step_with_result, client_final)\n    for client_id, client_output, _ in func(shared_input, clients):\n")],
     'plain path resolves the backend at iteration time'),
    ('C02', 'blockify_sort_drops_stability', [(FEC, "  clients.sort(key=lambda x: len(x[1]), reverse=True)\n", "  clients.sort(key=lambda x: len(x[1]), reverse=True)\n  clients = clients[:max(1, len(clients))] if len(clients) != 5 else clients[:4]\n")],
     'a collection of exactly 5 clients loses one'),
    ('C02', 'pmap_mask_step_result_only_first_leaf', [(FEC, "lambda x: jnp.where(mask, x, jnp.zeros_like(x)), step_result", "lambda x: x, step_result")],
     'benign w.r.t. the property: padding step results are truncated anyway (expected to SURVIVE)'),
    ('C02', 'debug_swallow_batch_iter_error', [(FEC, "          for batch in client_batches:\n            try:\n              state, step_result = client_step(state, batch)",
                                                "          for batch in _quiet(client_batches):\n            try:\n              state, step_result = client_step(state, batch)"),
                                               (FEC, "class ForEachClientDebugBackend(ForEachClientBackend):", "def _quiet(it):\n  try:\n    yield from it\n  except Exception:\n    return\n\n\nclass ForEachClientDebugBackend(ForEachClientBackend):")],
     'debug backend swallows an error of the batch iterable and yields a result for a partial client'),
]

FD = 'fedjax/core/federated_data.py'
SQ = 'fedjax/core/sqlite_federated_data.py'
IM = 'fedjax/core/in_memory_federated_data.py'
CD = 'fedjax/core/client_datasets.py'
MUTANTS += [
    # ---------------------------------------------------------------- C08
    ('C08', 'intersect_swaps_min_max', [(FD, 'new_start = max(current_start, new_start)', 'new_start = min(current_start, new_start)')],
     'nested slice can enlarge the range'),
    ('C08', 'sql_stop_inclusive', [(SQ, "return '(:start <= client_id AND client_id < :stop)'", "return '(:start <= client_id AND client_id <= :stop)'")],
     'SQL range includes stop'),
    ('C08', 'sql_get_client_no_range_check', [(SQ, "  def get_client(\n      self,\n      client_id: federated_data.ClientId) -> client_datasets.ClientDataset:\n    if ((self._start is None or self._start <= client_id) and\n        (self._stop is None or client_id < self._stop)):",
                                               "  def get_client(\n      self,\n      client_id: federated_data.ClientId) -> client_datasets.ClientDataset:\n    if True:")],
     'point lookup ignores the slice range'),
    ('C08', 'subset_get_clients_no_membership', [(FD, "    for client_id, dataset in self._base.get_clients(client_ids):\n      if client_id not in self._client_ids:\n        raise KeyError\n", "    for client_id, dataset in self._base.get_clients(client_ids):\n")],
     'subset bulk get leaks base clients'),
    ('C08', 'client_preprocessor_prepend', [(FD, 'return ClientPreprocessor(self._fns + (fn,))', 'return ClientPreprocessor((fn,) + self._fns)')],
     'client preprocessors run in reverse registration order'),
    ('C08', 'batch_preprocessor_prepend', [(CD, 'return BatchPreprocessor(self._fns + (fn,))', 'return BatchPreprocessor((fn,) + self._fns)')],
     'batch preprocessors run in reverse registration order'),
    ('C08', 'memory_stop_inclusive', [(IM, 'client_ids = set(i for i in self._client_ids if start <= i and i < stop)', 'client_ids = set(i for i in self._client_ids if start <= i and i <= stop)')],
     'in-memory two-sided slice includes stop'),
    ('C08', 'sql_slice_forgets_parent_range', [(SQ, "    start, stop = federated_data.intersect_slice_ranges(self._start, self._stop,\n                                                        start, stop)\n", "")],
     'slice of a slice forgets the outer range'),
    ('C08', 'subset_client_size_no_membership', [(FD, "  def client_size(self, client_id: ClientId) -> int:\n    if client_id not in self._client_ids:\n      raise KeyError\n", "  def client_size(self, client_id: ClientId) -> int:\n")],
     'subset client_size answers for base clients outside the subset'),
    ('C08', 'sql_preprocess_client_drops_range', [(SQ, "    return SQLiteFederatedData(self._connection, self._parse_examples,\n                               self._start, self._stop,\n                               self._preprocess_client.append(fn),",
                                                   "    return SQLiteFederatedData(self._connection, self._parse_examples,\n                               None, None,\n                               self._preprocess_client.append(fn),")],
     'preprocess_client on a sliced SQLite view returns the whole table'),
    ('C08', 'memory_preprocess_batch_mutates_parent', [(IM, "    return InMemoryFederatedData(self._client_to_data_mapping,\n                                 self._preprocess_client,\n                                 self._preprocess_batch.append(fn))",
                                                        "    self._preprocess_batch = self._preprocess_batch.append(fn)\n    return InMemoryFederatedData(self._client_to_data_mapping,\n                                 self._preprocess_client,\n                                 self._preprocess_batch)")],
     'deriving a view changes the parent'),
    ('C08', 'sql_one_query_desc_order', [(SQ, "f'SELECT client_id, num_examples FROM federated_data WHERE {self._range_where()} ORDER BY rowid;'", "f'SELECT client_id, num_examples FROM federated_data WHERE {self._range_where()} ORDER BY rowid DESC;'")],
     'client_sizes iterates in another (still deterministic) order: no clause forbids it (expected to SURVIVE)'),
    ('C08', 'shuffled_clients_skips_last_when_buffer_1', [(SQ, "      for k, v in client_datasets.buffered_shuffle(self._read_clients(),\n                                                   buffer_size, rng):\n        yield k, self._client_dataset(k, v)",
                                                           "      for n_, (k, v) in enumerate(client_datasets.buffered_shuffle(self._read_clients(),\n                                                   buffer_size, rng)):\n        if buffer_size == 1 and n_ == 2:\n          continue\n        yield k, self._client_dataset(k, v)")],
     'SQLite shuffled pass drops the third client when buffer_size is 1'),
]

CS = 'fedjax/core/client_samplers.py'
MUTANTS += [
    # ---------------------------------------------------------------- C13
    ('C13', 'global_numpy_rng', [(CS, "    random_state = get_pseudo_random_state(self._seed, self._round_num)\n", "    random_state = np.random\n")],
     'cohort drawn from the global numpy RNG'),
    ('C13', 'with_replacement', [(CS, 'replace=False)', 'replace=True)')], 'clients may repeat within a round'),
    ('C13', 'keys_from_seed_not_round', [(CS, "    client_rngs = jax.random.split(\n        jax.random.PRNGKey(self._round_num), self._num_clients)\n    for i, (client_id, client_dataset) in enumerate(",
                                          "    client_rngs = jax.random.split(\n        jax.random.PRNGKey(self._seed), self._num_clients)\n    for i, (client_id, client_dataset) in enumerate(")],
     'same client keys every round'),
    ('C13', 'string_array_ids', [(CS, 'np.array(self._client_ids, dtype=object),', 'np.array(self._client_ids),')],
     'numpy strips trailing zero bytes from ids'),
    ('C13', 'stream_skip_off_by_one', [(CS, "    for _ in range(self._round_num):\n      for _ in range(self._num_clients):", "    for _ in range(self._round_num):\n      for _ in range(self._num_clients - 1):")],
     'restarted streaming sampler seeks to the wrong position'),
    ('C13', 'advance_before_sampling', [(CS, "    clients = []\n    random_state = get_pseudo_random_state(self._seed, self._round_num)\n", "    clients = []\n    self._round_num += 1\n    random_state = get_pseudo_random_state(self._seed, self._round_num - 1)\n"),
                                        (CS, "      clients.append((client_id, client_dataset, client_rngs[i]))\n    self._round_num += 1\n    return clients\n\n  def set_round_num(self, round_num: int):\n    self._round_num = round_num",
                                         "      clients.append((client_id, client_dataset, client_rngs[i]))\n    return clients\n\n  def set_round_num(self, round_num: int):\n    self._round_num = round_num")],
     'keys derived from round+1 while ids from round (both still pure in the round) - benign shift (expected to SURVIVE)'),
    ('C13', 'state_carried_across_rounds', [(CS, "    random_state = get_pseudo_random_state(self._seed, self._round_num)\n", "    if not hasattr(self, '_rs'):\n      self._rs = get_pseudo_random_state(self._seed, self._round_num)\n    random_state = self._rs\n")],
     'the per-round random state is created once and carried: round r depends on the rounds sampled before'),
    ('C13', 'set_round_num_ignored_backwards', [(CS, "  def set_round_num(self, round_num: int):\n    self._round_num = round_num", "  def set_round_num(self, round_num: int):\n    self._round_num = max(self._round_num, round_num)")],
     'backward jumps are ignored'),
    ('C13', 'stream_keys_from_call_count', [(CS, "  def sample(\n      self\n  ) -> List[Tuple[federated_data.ClientId, client_datasets.ClientDataset,\n                  PRNGKey]]:\n    clients = []\n    client_rngs = jax.random.split(\n        jax.random.PRNGKey(self._round_num), self._num_clients)\n    for i in range(self._num_clients):",
                                             "  def sample(\n      self\n  ) -> List[Tuple[federated_data.ClientId, client_datasets.ClientDataset,\n                  PRNGKey]]:\n    clients = []\n    self._calls = getattr(self, '_calls', -1) + 1\n    client_rngs = jax.random.split(\n        jax.random.PRNGKey(self._calls), self._num_clients)\n    for i in range(self._num_clients):")],
     'streaming sampler keys count calls since construction instead of the round number'),
]

FA = 'fedjax/algorithms/fed_avg.py'
TU = 'fedjax/core/tree_util.py'
MUTANTS += [
    # ---------------------------------------------------------------- C01
    ('C01', 'weight_by_one', [(FA, "      num_examples = client_num_examples[client_id]\n", "      num_examples = 1\n")],
     'unweighted mean of client deltas'),
    ('C01', 'divide_by_num_clients', [(FA, "      num_examples_sum += num_examples\n", "      num_examples_sum += 1\n")],
     'weighted sum divided by the number of clients'),
    ('C01', 'no_zero_guard', [(TU, "def tree_inverse_weight(pytree: PyTree, weight: float) -> PyTree:\n  \"\"\"Weights tree leaves by ``1 / weight``.\"\"\"\n  inverse_weight = (1. / weight) if weight > 0. else 0.", "def tree_inverse_weight(pytree: PyTree, weight: float) -> PyTree:\n  \"\"\"Weights tree leaves by ``1 / weight``.\"\"\"\n  inverse_weight = (1. / weight) if weight > 0. else float('nan')")],
     'zero total weight gives NaN'),
    ('C01', 'flip_delta_sign', [(FA, "    delta_params = jax.tree_util.tree_map(lambda a, b: a - b,\n                                               server_params,\n                                               client_step_state['params'])", "    delta_params = jax.tree_util.tree_map(lambda a, b: b - a,\n                                               server_params,\n                                               client_step_state['params'])")],
     'delta has the wrong sign'),
    ('C01', 'same_key_for_all_clients', [(FA, "    batch_clients = [(cid, cds.shuffle_repeat_batch(client_batch_hparams), crng)\n                     for cid, cds, crng in clients]", "    batch_clients = [(cid, cds.shuffle_repeat_batch(client_batch_hparams), clients[0][2])\n                     for cid, cds, crng in clients]")],
     'every client trains with the first client key (visible only with an rng-dependent loss)'),
    ('C01', 'skip_server_opt_state_update', [(FA, "    return ServerState(params, opt_state)\n\n  return federated_algorithm", "    return ServerState(params, server_state.opt_state)\n\n  return federated_algorithm")],
     'server optimizer state is not carried forward'),
    ('C01', 'key_not_split_per_step', [(FA, "    next_client_step_state = {\n        'params': params,\n        'opt_state': opt_state,\n        'rng': rng,\n    }", "    next_client_step_state = {\n        'params': params,\n        'opt_state': opt_state,\n        'rng': client_step_state['rng'],\n    }")],
     'every local step reuses the same sub-key (visible only with an rng-dependent loss and >= 2 steps)'),
    ('C01', 'diagnostics_drop_zero_size', [(FA, "      client_diagnostics[client_id] = {\n          'delta_l2_norm': tree_util.tree_l2_norm(delta_params)\n      }", "      if num_examples > 0:\n        client_diagnostics[client_id] = {\n            'delta_l2_norm': tree_util.tree_l2_norm(delta_params)\n        }")],
     'no diagnostics entry for clients without examples'),
    ('C01', 'weight_by_batches_seen', [(FA, "    client_num_examples = {cid: len(cds) for cid, cds, _ in clients}", "    client_num_examples = {cid: min(len(cds), 4) for cid, cds, _ in clients}")],
     'weights saturate at 4 examples'),
    ('C01', 'last_client_twice_when_7', [(FA, "    mean_delta_params = tree_util.tree_inverse_weight(delta_params_sum,\n                                                      num_examples_sum)\n    server_state = server_update", "    if len(clients) == 7:\n      num_examples_sum += 1\n    mean_delta_params = tree_util.tree_inverse_weight(delta_params_sum,\n                                                      num_examples_sum)\n    server_state = server_update")],
     'normaliser off by one only for cohorts of exactly 7 clients'),
]

AP = 'fedjax/algorithms/apfl.py'
AG = 'fedjax/algorithms/agnostic_fed_avg.py'
HY = 'fedjax/algorithms/hyp_cluster.py'
CO = 'fedjax/aggregators/compression.py'
ML = 'fedjax/algorithms/mime_lite.py'
MI = 'fedjax/algorithms/mime.py'
FP = 'fedjax/algorithms/fed_prox.py'
MUTANTS += [
    # ---------------------------------------------------------------- C10
    ('C10', 'apfl_writes_into_argument', [(AP, "    client_states = dict(server_state.client_states)\n", "    client_states = server_state.client_states\n")],
     're-introduces D4'),
    ('C10', 'fedavg_hidden_call_counter', [(FA, "  def apply(\n      server_state: ServerState,", "  calls = [0]\n\n  def apply(\n      server_state: ServerState,"),
                                           (FA, "    num_examples_sum = 0.\n", "    calls[0] += 1\n    num_examples_sum = 0. if calls[0] % 3 else 1e-3\n")],
     'hidden state in a closure: every third call is computed differently'),
    ('C10', 'agnostic_window_mutates_argument', [(AG, "    domain_window = server_state.domain_window[1:] + [sum_domain_num]\n", "    server_state.domain_window.pop(0)\n    server_state.domain_window.append(sum_domain_num)\n    domain_window = server_state.domain_window\n")],
     'the sliding window list of the input state is shifted in place'),
    ('C10', 'hyp_writes_cluster_params_in_place', [(HY, "    cluster_params = []\n    opt_states = []\n", "    cluster_params = server_state.cluster_params\n    cluster_params.clear()\n    opt_states = []\n"),
                                                   (HY, "    for delta_params, opt_state, params in zip(cluster_delta_params,\n                                               server_state.opt_states,\n                                               server_state.cluster_params):", "    for delta_params, opt_state, params in zip(cluster_delta_params,\n                                               server_state.opt_states,\n                                               list(server_state.cluster_params)):")],
     'BAD-MUTANT guard: clears the list before iterating (kept to show tool behaviour if pattern drifts)'),
    ('C10', 'hyp_list_aliasing', [(HY, "    return ServerState(cluster_params, opt_states), client_diagnostics", "    server_state.cluster_params[:] = cluster_params\n    return ServerState(server_state.cluster_params, opt_states), client_diagnostics")],
     'new cluster params written into the list held by the input state'),
    ('C10', 'fedavg_donates_input_params', [(FA, "    mean_delta_params = tree_util.tree_inverse_weight(delta_params_sum,\n                                                      num_examples_sum)\n    server_state = server_update", "    mean_delta_params = tree_util.tree_inverse_weight(delta_params_sum,\n                                                      num_examples_sum)\n    if len(clients) == 4:\n      jax.tree_util.tree_map(lambda x: x.delete(), server_state.params)\n    server_state = server_update")],
     'deletes the caller buffers for cohorts of four (stand-in for a wrong donation)'),
    ('C10', 'mime_opt_state_from_global', [(MI, "    opt_state, _ = base_optimizer.apply(server_grads, server_state.opt_state,\n                                        server_state.params)\n    return ServerState(params, opt_state)\n\n  return federated_algorithm.FederatedAlgorithm(init, apply)",
                                            "    _HIDDEN.append(1)\n    opt_state, _ = base_optimizer.apply(jax.tree_util.tree_map(lambda g: g * (1 + 0.01 * (len(_HIDDEN) > 4)), server_grads), server_state.opt_state,\n                                        server_state.params)\n    return ServerState(params, opt_state)\n\n  return federated_algorithm.FederatedAlgorithm(init, apply)\n\n\n_HIDDEN = []")],
     'module-global hidden state changes Mime after its fourth round in a process (optimizer state only)'),
]

MUTANTS += [
    # ---------------------------------------------------------------- C12
    ('C12', 'fedprox_grad_wrt_server_params', [(FP, "  grad_fn = jax.grad(fed_prox_loss)\n", "  grad_fn = jax.grad(fed_prox_loss, argnums=1)\n")],
     'FedProx differentiates with respect to the server parameters'),
    ('C12', 'fedprox_penalty_without_half', [(FP, "    proximal_loss = 0.5 * proximal_weight * tree_util.tree_l2_squared(", "    proximal_loss = proximal_weight * tree_util.tree_l2_squared(")],
     'proximal term mu*|w-w0|^2 instead of 0.5*mu*|w-w0|^2'),
    ('C12', 'mimelite_delta_sign', [(ML, "    delta_params = jax.tree_util.tree_map(lambda a, b: a - b,\n                                               shared_input['params'],\n                                               step_state['params'])", "    delta_params = jax.tree_util.tree_map(lambda a, b: b - a,\n                                               shared_input['params'],\n                                               step_state['params'])")],
     'MimeLite client delta has the wrong sign'),
    ('C12', 'hyp_weight_by_one', [(HY, "        tree_util.tree_weight(delta_params, num_examples[client_id]))\n    cluster_num_examples_sum[cluster_id] += num_examples[client_id]", "        tree_util.tree_weight(delta_params, 1. * (num_examples[client_id] > 0)))\n    cluster_num_examples_sum[cluster_id] += 1 * (num_examples[client_id] > 0)")],
     'HypCluster averages client deltas without example weights'),
    ('C12', 'apfl_global_uses_personalised_grads', [(AP, "    server_opt_state, server_params = client_optimizer.apply(\n      server_grads,", "    server_opt_state, server_params = client_optimizer.apply(\n      client_grads,")],
     'APFL trains the global model on the personalised gradient'),
    ('C12', 'mime_drops_control_variate', [(MI, "        lambda g, cc, c: g - cc + c, grads, client_control_variate,", "        lambda g, cc, c: g, grads, client_control_variate,")],
     'Mime without the control variate correction'),
    ('C12', 'mime_ignores_server_lr', [(MI, "        lambda p, q: p - server_learning_rate * q, server_state.params,\n        mean_delta_params)\n    opt_state, _ = base_optimizer.apply(server_grads, server_state.opt_state,\n                                        server_state.params)\n    return ServerState(params, opt_state)", "        lambda p, q: p - q, server_state.params,\n        mean_delta_params)\n    opt_state, _ = base_optimizer.apply(server_grads, server_state.opt_state,\n                                        server_state.params)\n    return ServerState(params, opt_state)")],
     'Mime server step ignores the server learning rate'),
    ('C12', 'apfl_weight_by_one', [(AP, "      num_examples = client_num_examples[client_id]\n", "      num_examples = 1.0\n")],
     'APFL global update is an unweighted mean'),
    ('C12', 'fedprox_opt_state_shared_across_clients', [(FP, "    opt_state = client_optimizer.init(server_params)\n    client_step_state = {\n        'params': server_params,\n        'opt_state': opt_state,\n        'rng': client_rng,\n        'server_params': server_params,", "    opt_state = client_optimizer.init(jax.tree_util.tree_map(lambda x: x + 1, server_params))\n    client_step_state = {\n        'params': server_params,\n        'opt_state': opt_state,\n        'rng': client_rng,\n        'server_params': server_params,")],
     'benign: optimizer init from other params (init ignores values for these optimizers) - expected to SURVIVE'),
]

OP = 'fedjax/core/optimizers.py'
MUTANTS += [
    # ---------------------------------------------------------------- C17
    ('C17', 'window_grows', [(AG, "    domain_window = server_state.domain_window[1:] + [sum_domain_num]\n", "    domain_window = server_state.domain_window + [sum_domain_num]\n")],
     'sliding window never drops its oldest entry'),
    ('C17', 'weights_not_renormalised', [(AG, "    return new_domain_weights / jnp.sum(new_domain_weights)\n", "    return new_domain_weights\n")],
     'domain weights leave the simplex'),
    ('C17', 'window_newest_first', [(AG, "    domain_window = server_state.domain_window[1:] + [sum_domain_num]\n", "    domain_window = [sum_domain_num] + server_state.domain_window[:-1]\n")],
     'window order reversed: with the same multiset the mean is the same but the wrong entry is dropped'),
    ('C17', 'undo_safe_div_alpha', [(AG, "    alpha = util.safe_div(\n        server_state.domain_weights,\n        jnp.mean(jnp.asarray(server_state.domain_window), axis=0))\n", "    alpha = server_state.domain_weights / jnp.mean(\n        jnp.asarray(server_state.domain_window), axis=0)\n")],
     're-introduces D10'),
    ('C17', 'hyp_argmax_assignment', [(HY, "      client_id: jnp.argmin(jnp.stack(losses))", "      client_id: jnp.argmax(jnp.stack(losses))")],
     'clients assigned to the cluster of maximal loss'),
    ('C17', 'hyp_empty_cluster_gets_zero_delta', [(HY, "    else:\n      cluster_delta_params.append(None)\n", "    else:\n      cluster_delta_params.append(delta_params_sum)\n")],
     'clusters without clients receive a zero delta (stateful server optimizers then move them)'),
    ('C17', 'hyp_all_clients_update_cluster_zero', [(HY, "    cluster_id = client_cluster_ids[client_id]\n    cluster_delta_params_sum[cluster_id]", "    cluster_id = client_cluster_ids[client_id] * (num_examples[client_id] % 2)\n    cluster_delta_params_sum[cluster_id]")],
     'clients with an even number of examples update cluster 0 instead of their own'),
    ('C17', 'mimelite_clip_after_aggregation', [(ML, "        delta_params = tree_util.tree_clip_by_global_norm(\n            delta_params, client_delta_clip_norm)\n", "        delta_params, _unclipped = tree_util.tree_clip_by_global_norm(\n            delta_params, client_delta_clip_norm), delta_params\n"),
                                                 (ML, "      delta_params_sum = tree_util.tree_add(\n          delta_params_sum, tree_util.tree_weight(delta_params, num_examples))\n      num_examples_sum += num_examples\n    mean_delta_params", "      delta_params_sum = tree_util.tree_add(\n          delta_params_sum, tree_util.tree_weight(_unclipped if client_delta_clip_norm is not None else delta_params, num_examples))\n      num_examples_sum += num_examples\n    mean_delta_params")],
     'diagnostics report the clipped norm but the unclipped update is aggregated'),
    ('C17', 'clip_scale_wrong_direction', [(TU, "  scale = jnp.minimum(1, max_norm / global_norm)", "  scale = jnp.minimum(1, max_norm / global_norm) + 0.05")],
     'clipped norm exceeds the bound by 5 percent'),
    ('C17', 'apfl_no_clip', [(AP, "      lambda x: jnp.clip(x, 0, 1),\n", "      lambda x: x,\n")],
     'interpolation coefficients leave [0,1]'),
    ('C17', 'apfl_prepopulates_table', [(AP, "    client_states = dict(server_state.client_states)\n", "    client_states = dict(server_state.client_states)\n    client_states.setdefault(b'ghost', client_default_state)\n")],
     'client table gains an entry for a client that never participated'),
    ('C17', 'ignore_grads_restores_from_grads', [(OP, "      trainable_params[module_name][name] = params[module_name][name]", "      trainable_params[module_name][name] = grads[module_name][name]")],
     'ignored parameters are overwritten with their gradients'),
    ('C17', 'ignore_grads_only_first_name', [(OP, "    for module_name, name in non_trainable_names:\n      trainable_params", "    for module_name, name in non_trainable_names[:1]:\n      trainable_params")],
     'only the first ignored name is restored (the rest come back as None / missing)'),
]

MUTANTS += [
    # ---------------------------------------------------------------- C11
    ('C11', 'key_not_stored_back', [(CO, "      new_bits = math.log2(\n          num_levels) * total_num_params + 32 * total_num_floats\n    new_state = CompressionState(aggregator_state.num_bits + new_bits, rng)", "      new_bits = math.log2(\n          num_levels) * total_num_params + 32 * total_num_floats\n    new_state = CompressionState(aggregator_state.num_bits + new_bits, aggregator_state.rng)")],
     'uniform quantizer re-uses the same key every round'),
    ('C11', 'threshold_squared', [(CO, "  threshold = jnp.nan_to_num((v - v_floor) / (v_ceil - v_floor))\n", "  threshold = jnp.nan_to_num((v - v_floor) / (v_ceil - v_floor))**2\n")],
     'biased rounding threshold'),
    ('C11', 'grid_uses_num_levels', [(CO, "  v_ceil = jnp.ceil(v * (num_levels - 1)) / (num_levels - 1)\n", "  v_ceil = jnp.ceil(v * num_levels) / num_levels\n")],
     'ceil level taken from a grid with one level too many'),
    ('C11', 'floor_ceil_swapped', [(CO, "  quantized = jnp.where(rand > threshold, v_floor, v_ceil)\n", "  quantized = jnp.where(rand > threshold, v_ceil, v_floor)\n")],
     'rounds up with the probability of rounding down (biased, still on the grid)'),
    ('C11', 'bits_log2_levels_minus_one', [(CO, "      new_bits = math.log2(\n          num_levels) * total_num_params + 32 * total_num_floats\n", "      new_bits = math.log2(\n          max(num_levels - 1, 1)) * total_num_params + 32 * total_num_floats\n")],
     'bit accounting uses log2(levels-1)'),
    ('C11', 'terngrad_without_clipping', [(CO, "  v = jnp.where(jnp.abs(v) > 2.5 * sigma, 2.5 * sigma * jnp.sign(v), v)\n", "")],
     'TernGrad does not clip at 2.5 sigma'),
    ('C11', 'undo_drive_nan_guard', [(CO, "    scale = jnp.nan_to_num(jnp.sum(jnp.power(leaf, 2)) / jnp.sum(jnp.abs(leaf)))\n", "    scale = jnp.sum(jnp.power(leaf, 2)) / jnp.sum(jnp.abs(leaf))\n")],
     're-introduces D8'),
    ('C11', 'drive_same_rotation_for_every_client', [(CO, "    rotation_rng_seq = hk.PRNGSequence(rotation_rng)\n", "    rotation_rng_seq = itertools.repeat(rotation_rng)\n")],
     'DRIVE rotates every client with the same key'),
    ('C11', 'rotated_bits_forgets_floats', [(CO, "    new_bits = math.log2(num_levels) * total_num_params + 32 * total_num_floats\n    new_state = CompressionState(aggregator_state.num_bits + new_bits, rng)\n    return aggregated_params, new_state\n\n  return aggregator.Aggregator(init, apply)\n\n\n@jax.jit\ndef drive_pytree", "    new_bits = math.log2(num_levels) * total_num_params\n    new_state = CompressionState(aggregator_state.num_bits + new_bits, rng)\n    return aggregated_params, new_state\n\n  return aggregator.Aggregator(init, apply)\n\n\n@jax.jit\ndef drive_pytree")],
     'rotated quantizer does not count the two floats per leaf'),
    ('C11', 'threshold_ge_instead_of_gt', [(CO, "  quantized = jnp.where(rand > threshold, v_floor, v_ceil)\n", "  quantized = jnp.where(rand >= threshold, v_floor, v_ceil)\n")],
     'measure-zero change of the Bernoulli threshold: below any statistical radius (expected to SURVIVE, documented limit)'),
    ('C11', 'terngrad_zero_weight_divides', [(CO, "  return binary_stochastic_quantize(jnp.abs(v), rng, 0., jnp.amax(  # pytype: disable=wrong-arg-types  # jnp-type\n      jnp.abs(v))) * jnp.sign(v)", "  return binary_stochastic_quantize(jnp.abs(v), rng, 0., jnp.amax(  # pytype: disable=wrong-arg-types  # jnp-type\n      jnp.abs(v))) * jnp.sign(v) * (1 + 0.2 * (v.size == 33))")],
     'TernGrad output scaled by 1.2 for leaves of exactly 33 coordinates'),
]

MUTANTS += [
    ('C10', 'aggregator_key_in_closure', [(CO, "    rng, use_rng = jax.random.split(aggregator_state.rng)\n    # TODO(theertha): remove the usage of hk.PRNGSequence.\n    rng_seq = hk.PRNGSequence(use_rng)\n    clients_params_and_weight_rng = zip(clients_params_and_weights, rng_seq)\n    quantized_p_and_w = itertools.starmap(quantize_params_and_weight,\n                                          clients_params_and_weight_rng)\n    new_bits = 0.",
                                           "    _HOLDER.setdefault('k', aggregator_state.rng)\n    _HOLDER['k'], use_rng = jax.random.split(_HOLDER['k'])\n    rng = _HOLDER['k']\n    rng_seq = hk.PRNGSequence(use_rng)\n    clients_params_and_weight_rng = zip(clients_params_and_weights, rng_seq)\n    quantized_p_and_w = itertools.starmap(quantize_params_and_weight,\n                                          clients_params_and_weight_rng)\n    new_bits = 0."),
                                          (CO, "@dataclasses.dataclass\nclass CompressionState:", "_HOLDER = {}\n\n\n@dataclasses.dataclass\nclass CompressionState:")],
     'uniform quantizer keeps its key in a module-level holder instead of the state'),
    ('C12', 'hyp_skips_update_for_three_clients', [(HY, "      if delta_params is None:\n        # No examples were observed for this cluster.\n", "      if delta_params is None or (len(clients) == 3 and len(server_state.cluster_params) == 1):\n        # No examples were observed for this cluster.\n")],
     'single-cluster HypCluster skips the server update for cohorts of exactly three clients'),
    ('C11', 'same_key_for_every_client', [(CO, "    rng, use_rng = jax.random.split(aggregator_state.rng)\n    # TODO(theertha): remove the usage of hk.PRNGSequence.\n    rng_seq = hk.PRNGSequence(use_rng)\n    clients_params_and_weight_rng = zip(clients_params_and_weights, rng_seq)\n    quantized_p_and_w = itertools.starmap(quantize_params_and_weight,\n                                          clients_params_and_weight_rng)\n    new_bits = 0.",
                                           "    rng, use_rng = jax.random.split(aggregator_state.rng)\n    clients_params_and_weight_rng = zip(clients_params_and_weights, itertools.repeat(use_rng))\n    quantized_p_and_w = itertools.starmap(quantize_params_and_weight,\n                                          clients_params_and_weight_rng)\n    new_bits = 0.")],
     'uniform quantizer gives every client the same key'),
    ('C11', 'drop_nan_to_num_uniform', [(CO, "  v = jnp.nan_to_num((v - v_min) / (v_max - v_min))\n  v = jnp.maximum(0., jnp.minimum(v, 1.))\n  # Compute the upper and lower boundary of each value.", "  v = (v - v_min) / (v_max - v_min)\n  v = jnp.maximum(0., jnp.minimum(v, 1.))\n  # Compute the upper and lower boundary of each value.")],
     'constant leaf gives 0/0 in the uniform quantizer'),
]
