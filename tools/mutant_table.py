"""(property, name, [(file relative to repo root, old, new)], note).  Applied to a scratch copy only."""
FE = 'fedjax/training/federated_experiment.py'
CK = 'fedjax/training/checkpoint.py'
DL = 'fedjax/datasets/downloads.py'

MUTANTS = [
    # ---------------------------------------------------------------- C09
    ('C09', 'start_round_eq_last', [(FE, 'start_round_num = last_round_num + 1', 'start_round_num = last_round_num')],
     'resumed run repeats the checkpointed round'),
    ('C09', 'drop_set_round_num', [(FE, '  client_sampler.set_round_num(start_round_num)\n', '  pass\n')],
     'sampler not re-seated after resume'),
    ('C09', 'keep_plus_one', [(CK, '[:-keep]', '[:-keep - 1]')], 'retains keep+1 checkpoints'),
    ('C09', 'keep_oldest', [(CK, '_get_checkpoint_paths(base_path)[:-keep]', '_get_checkpoint_paths(base_path)[keep:]')],
     'deletes the newest checkpoints instead of the oldest'),
    ('C09', 'load_oldest', [(CK, 'latest_checkpoint_path = all_checkpoint_paths[-1]', 'latest_checkpoint_path = all_checkpoint_paths[0]')],
     'loads the oldest checkpoint'),
    ('C09', 'lexical_sort', [(CK, 'return sorted(checkpoint_paths, key=sort_key)', 'return sorted(checkpoint_paths, key=lambda p: str(int(p.split(base_path)[-1])))')],
     'orders checkpoints lexically by unpadded number (9 > 10)'),
    ('C09', 'no_digit_filter', [(CK, "pattern = base_path + r'[0-9]{8}$'", "pattern = base_path + r'.*[0-9]$'")],
     'junk files ending in a digit are taken for checkpoints'),
    ('C09', 'final_eval_round_plus_one', [(FE, '    metrics = eval_fn(state, round_num)\n    if metrics:\n      metrics_path', '    metrics = eval_fn(state, config.num_rounds + 1)\n    if metrics:\n      metrics_path')],
     'final evaluation given num_rounds+1 in EVERY run, interrupted or not: resumed == uninterrupted still holds (expected to SURVIVE; final_round_num_off is the variant that breaks the property)'),
    ('C09', 'undo_atomic_rename', [(CK, "  tmp_checkpoint_path = checkpoint_path + '.tmp'\n", "  tmp_checkpoint_path = checkpoint_path\n"),
                                   (CK, '  tf.io.gfile.rename(tmp_checkpoint_path, checkpoint_path, overwrite=True)\n', '')],
     're-introduces the in-place checkpoint write (D2)'),
    ('C09', 'tmp_name_matches_filter', [(CK, "checkpoint_path + '.tmp'", "f'{base_path}{round_num + 50000000:08d}'")],
     'temporary name is itself accepted by the 8-digit filter'),
    ('C09', 'undo_round_num_init', [(FE, '  round_num = start_round_num - 1\n', '')], 're-introduces D1'),
    ('C09', 'final_round_num_off', [(FE, '  round_num = start_round_num - 1\n', '  round_num = start_round_num\n')],
     'final evaluation after a resume-at-end sees round+1'),
    ('C09', 'skip_first_round_ckpt_then_eval_order', [(FE, 'round_num == start_round_num or\n        round_num % config.checkpoint_frequency == 0)', 'round_num % config.checkpoint_frequency == 0)')],
     'benign: checkpoint schedule change only (expected to SURVIVE: no property clause fixes the schedule)'),
    # ---------------------------------------------------------------- C19
    ('C19', 'download_in_place', [(DL, "with open(path + '.partial', 'wb') as fo:", "with open(path, 'wb') as fo:"),
                                  (DL, "    os.rename(path + '.partial', path)\n", '')],
     'download straight into the final name'),
    ('C19', 'rename_before_loop', [(DL, "      block_size = 1 << 18\n", "      block_size = 1 << 18\n      os.rename(path + '.partial', path)\n"),
                                   (DL, "          f'{num_bytes}.')\n    os.rename(path + '.partial', path)\n", "          f'{num_bytes}.')\n")],
     'renames the partial file before the body is written'),
    ('C19', 'resume_partial_without_refetch', [(DL, "  if os.path.exists(path):\n    log(f'Reusing", "  if os.path.exists(path + '.partial'):\n    os.rename(path + '.partial', path)\n  if os.path.exists(path):\n    log(f'Reusing")],
     'a stale .partial is promoted to the final name'),
    ('C19', 'skip_raise_for_status', [(DL, '      r.raise_for_status()\n', '')], 'HTTP error body cached as the file'),
    ('C19', 'undo_length_check', [(DL, '    if num_bytes != length:\n', '    if False:\n')], 're-introduces D11'),
    ('C19', 'undo_decompress_partial', [(DL, "      with open(decompressed_path + '.partial', 'wb') as fo:", "      with open(decompressed_path, 'wb') as fo:"),
                                        (DL, "    os.rename(decompressed_path + '.partial', decompressed_path)\n", '')],
     're-introduces D3'),
    ('C19', 'decompress_rename_inside_with', [(DL, "        shutil.copyfileobj(fi, fo)\n    os.rename(decompressed_path + '.partial', decompressed_path)\n",
                                               "        os.rename(decompressed_path + '.partial', decompressed_path)\n        shutil.copyfileobj(fi, fo)\n")],
     'renames the decompressed partial before the copy'),
    ('C19', 'append_mode_partial', [(DL, "with open(path + '.partial', 'wb') as fo:", "with open(path + '.partial', 'ab') as fo:")],
     'a stale .partial is appended to instead of overwritten'),
    ('C19', 'swallow_errors', [(DL, "    if num_bytes != length:\n      raise IOError(", "    if num_bytes != length and num_bytes == 0:\n      raise IOError(")],
     'length check only when nothing was received'),
    ('C19', 'always_redownload', [(DL, "  if os.path.exists(path):\n    log(f'Reusing cached file {path!r}')\n  else:\n    log(f'Downloading", "  if False:\n    log(f'Reusing cached file {path!r}')\n  else:\n    log(f'Downloading")],
     'complete cached file is fetched again (network touched on reuse)'),
]

FEC = 'fedjax/core/for_each_client.py'
MUTANTS += [
    # ---------------------------------------------------------------- C02
    ('C02', 'backend_choice_not_thread_local', [(FEC, 'class BackendChoice(threading.local):', 'class BackendChoice(object):')],
     'backend selection shared by all threads'),
    ('C02', 'no_finally_restore', [(FEC, "  old = _BACKEND_CHOICE.backend\n  try:\n    set_for_each_client_backend(backend)\n    yield\n  finally:\n    set_for_each_client_backend(old)\n",
                                    "  old = _BACKEND_CHOICE.backend\n  set_for_each_client_backend(backend)\n  yield\n  set_for_each_client_backend(old)\n")],
     'context not restored when the body raises'),
    ('C02', 'save_old_after_set', [(FEC, "  old = _BACKEND_CHOICE.backend\n  try:\n    set_for_each_client_backend(backend)\n    yield\n",
                                    "  try:\n    set_for_each_client_backend(backend)\n    old = _BACKEND_CHOICE.backend\n    yield\n")],
     'context exit re-installs its own backend'),
    ('C02', 'pmap_no_state_mask', [(FEC, "      next_state = jax.tree_util.tree_map(\n          functools.partial(jnp.where, mask), next_state, state\n      )\n", "")],
     'padding batches update the state'),
    ('C02', 'pmap_no_step_result_truncation', [(FEC, 'step_results[: block.num_batches[i]],', 'step_results,')],
     'padding step results are visible'),
    ('C02', 'pmap_yield_padding_clients', [(FEC, "          if not block.client_mask[i]:\n            continue\n", "")],
     'padding clients are yielded'),
    ('C02', 'jit_no_copy_before_donation', [(FEC, 'return jax.tree_util.tree_map(jnp.copy, state)', 'return state')],
     'initial state may alias caller input and gets donated - NOT OBSERVABLE on this jax/CPU: jit outputs never share a buffer with their inputs here (probed), so the caller input survives (expected to SURVIVE)'),
    ('C02', 'lazy_backend_resolution', [(FEC, "  for_each_client_backend_ = get_for_each_client_backend()\n  if with_step_result:\n    return for_each_client_backend_(client_init, client_step, client_final)\n",
                                         "  if with_step_result:\n    def run_lazy(shared_input, clients):\n      yield from get_for_each_client_backend()(client_init, client_step, client_final)(shared_input, clients)\n    return run_lazy\n  for_each_client_backend_ = get_for_each_client_backend()\n"),
                                        ],
     'with_step_result path resolves the backend at iteration time (only that path)'),
    ('C02', 'lazy_backend_resolution_plain', [(FEC, "  func = for_each_client_backend_(client_init, client_step_with_result,\n                                  client_final)\n\n  def run(shared_input, clients):\n    for client_id, client_output, _ in func(shared_input, clients):\n",
                                               "  def run(shared_input, clients):\n    func = get_for_each_client_backend()(client_init, client_step_with_result, client_final)\n    for client_id, client_output, _ in func(shared_input, clients):\n")],
     'plain path resolves the backend at iteration time'),
    ('C02', 'blockify_sort_drops_stability', [(FEC, "  clients.sort(key=lambda x: len(x[1]), reverse=True)\n", "  clients.sort(key=lambda x: len(x[1]), reverse=True)\n  clients = clients[:max(1, len(clients))] if len(clients) != 5 else clients[:4]\n")],
     'a collection of exactly 5 clients loses one'),
    ('C02', 'pmap_mask_step_result_only_first_leaf', [(FEC, "lambda x: jnp.where(mask, x, jnp.zeros_like(x)), step_result", "lambda x: x, step_result")],
     'benign w.r.t. the property: padding step results are truncated anyway (expected to SURVIVE)'),
    ('C02', 'debug_swallow_batch_iter_error', [(FEC, "          for batch in client_batches:\n            try:\n              state, step_result = client_step(state, batch)",
                                                "          for batch in _quiet(client_batches):\n            try:\n              state, step_result = client_step(state, batch)"),
                                               (FEC, "class ForEachClientDebugBackend(ForEachClientBackend):", "def _quiet(it):\n  try:\n    yield from it\n  except Exception:\n    return\n\n\nclass ForEachClientDebugBackend(ForEachClientBackend):")],
     'debug backend swallows an error of the batch iterable and yields a result for a partial client'),
]

FD = 'fedjax/core/federated_data.py'
SQ = 'fedjax/core/sqlite_federated_data.py'
IM = 'fedjax/core/in_memory_federated_data.py'
CD = 'fedjax/core/client_datasets.py'
MUTANTS += [
    # ---------------------------------------------------------------- C08
    ('C08', 'intersect_swaps_min_max', [(FD, 'new_start = max(current_start, new_start)', 'new_start = min(current_start, new_start)')],
     'nested slice can enlarge the range'),
    ('C08', 'sql_stop_inclusive', [(SQ, "return '(:start <= client_id AND client_id < :stop)'", "return '(:start <= client_id AND client_id <= :stop)'")],
     'SQL range includes stop'),
    ('C08', 'sql_get_client_no_range_check', [(SQ, "  def get_client(\n      self,\n      client_id: federated_data.ClientId) -> client_datasets.ClientDataset:\n    if ((self._start is None or self._start <= client_id) and\n        (self._stop is None or client_id < self._stop)):",
                                               "  def get_client(\n      self,\n      client_id: federated_data.ClientId) -> client_datasets.ClientDataset:\n    if True:")],
     'point lookup ignores the slice range'),
    ('C08', 'subset_get_clients_no_membership', [(FD, "    for client_id, dataset in self._base.get_clients(client_ids):\n      if client_id not in self._client_ids:\n        raise KeyError\n", "    for client_id, dataset in self._base.get_clients(client_ids):\n")],
     'subset bulk get leaks base clients'),
    ('C08', 'client_preprocessor_prepend', [(FD, 'return ClientPreprocessor(self._fns + (fn,))', 'return ClientPreprocessor((fn,) + self._fns)')],
     'client preprocessors run in reverse registration order'),
    ('C08', 'batch_preprocessor_prepend', [(CD, 'return BatchPreprocessor(self._fns + (fn,))', 'return BatchPreprocessor((fn,) + self._fns)')],
     'batch preprocessors run in reverse registration order'),
    ('C08', 'memory_stop_inclusive', [(IM, 'client_ids = set(i for i in self._client_ids if start <= i and i < stop)', 'client_ids = set(i for i in self._client_ids if start <= i and i <= stop)')],
     'in-memory two-sided slice includes stop'),
    ('C08', 'sql_slice_forgets_parent_range', [(SQ, "    start, stop = federated_data.intersect_slice_ranges(self._start, self._stop,\n                                                        start, stop)\n", "")],
     'slice of a slice forgets the outer range'),
    ('C08', 'subset_client_size_no_membership', [(FD, "  def client_size(self, client_id: ClientId) -> int:\n    if client_id not in self._client_ids:\n      raise KeyError\n", "  def client_size(self, client_id: ClientId) -> int:\n")],
     'subset client_size answers for base clients outside the subset'),
    ('C08', 'sql_preprocess_client_drops_range', [(SQ, "    return SQLiteFederatedData(self._connection, self._parse_examples,\n                               self._start, self._stop,\n                               self._preprocess_client.append(fn),",
                                                   "    return SQLiteFederatedData(self._connection, self._parse_examples,\n                               None, None,\n                               self._preprocess_client.append(fn),")],
     'preprocess_client on a sliced SQLite view returns the whole table'),
    ('C08', 'memory_preprocess_batch_mutates_parent', [(IM, "    return InMemoryFederatedData(self._client_to_data_mapping,\n                                 self._preprocess_client,\n                                 self._preprocess_batch.append(fn))",
                                                        "    self._preprocess_batch = self._preprocess_batch.append(fn)\n    return InMemoryFederatedData(self._client_to_data_mapping,\n                                 self._preprocess_client,\n                                 self._preprocess_batch)")],
     'deriving a view changes the parent'),
    ('C08', 'sql_one_query_desc_order', [(SQ, "f'SELECT client_id, num_examples FROM federated_data WHERE {self._range_where()} ORDER BY rowid;'", "f'SELECT client_id, num_examples FROM federated_data WHERE {self._range_where()} ORDER BY rowid DESC;'")],
     'client_sizes iterates in another (still deterministic) order: no clause forbids it (expected to SURVIVE)'),
    ('C08', 'shuffled_clients_skips_last_when_buffer_1', [(SQ, "      for k, v in client_datasets.buffered_shuffle(self._read_clients(),\n                                                   buffer_size, rng):\n        yield k, self._client_dataset(k, v)",
                                                           "      for n_, (k, v) in enumerate(client_datasets.buffered_shuffle(self._read_clients(),\n                                                   buffer_size, rng)):\n        if buffer_size == 1 and n_ == 2:\n          continue\n        yield k, self._client_dataset(k, v)")],
     'SQLite shuffled pass drops the third client when buffer_size is 1'),
]

CS = 'fedjax/core/client_samplers.py'
MUTANTS += [
    # ---------------------------------------------------------------- C13
    ('C13', 'global_numpy_rng', [(CS, "    random_state = get_pseudo_random_state(self._seed, self._round_num)\n", "    random_state = np.random\n")],
     'cohort drawn from the global numpy RNG'),
    ('C13', 'with_replacement', [(CS, 'replace=False)', 'replace=True)')], 'clients may repeat within a round'),
    ('C13', 'keys_from_seed_not_round', [(CS, "    client_rngs = jax.random.split(\n        jax.random.PRNGKey(self._round_num), self._num_clients)\n    for i, (client_id, client_dataset) in enumerate(",
                                          "    client_rngs = jax.random.split(\n        jax.random.PRNGKey(self._seed), self._num_clients)\n    for i, (client_id, client_dataset) in enumerate(")],
     'same client keys every round'),
    ('C13', 'string_array_ids', [(CS, 'np.array(self._client_ids, dtype=object),', 'np.array(self._client_ids),')],
     'numpy strips trailing zero bytes from ids'),
    ('C13', 'stream_skip_off_by_one', [(CS, "    for _ in range(self._round_num):\n      for _ in range(self._num_clients):", "    for _ in range(self._round_num):\n      for _ in range(self._num_clients - 1):")],
     'restarted streaming sampler seeks to the wrong position'),
    ('C13', 'advance_before_sampling', [(CS, "    clients = []\n    random_state = get_pseudo_random_state(self._seed, self._round_num)\n", "    clients = []\n    self._round_num += 1\n    random_state = get_pseudo_random_state(self._seed, self._round_num - 1)\n"),
                                        (CS, "      clients.append((client_id, client_dataset, client_rngs[i]))\n    self._round_num += 1\n    return clients\n\n  def set_round_num(self, round_num: int):\n    self._round_num = round_num",
                                         "      clients.append((client_id, client_dataset, client_rngs[i]))\n    return clients\n\n  def set_round_num(self, round_num: int):\n    self._round_num = round_num")],
     'keys derived from round+1 while ids from round (both still pure in the round) - benign shift (expected to SURVIVE)'),
    ('C13', 'state_carried_across_rounds', [(CS, "    random_state = get_pseudo_random_state(self._seed, self._round_num)\n", "    if not hasattr(self, '_rs'):\n      self._rs = get_pseudo_random_state(self._seed, self._round_num)\n    random_state = self._rs\n")],
     'the per-round random state is created once and carried: round r depends on the rounds sampled before'),
    ('C13', 'set_round_num_ignored_backwards', [(CS, "  def set_round_num(self, round_num: int):\n    self._round_num = round_num", "  def set_round_num(self, round_num: int):\n    self._round_num = max(self._round_num, round_num)")],
     'backward jumps are ignored'),
    ('C13', 'stream_keys_from_call_count', [(CS, "  def sample(\n      self\n  ) -> List[Tuple[federated_data.ClientId, client_datasets.ClientDataset,\n                  PRNGKey]]:\n    clients = []\n    client_rngs = jax.random.split(\n        jax.random.PRNGKey(self._round_num), self._num_clients)\n    for i in range(self._num_clients):",
                                             "  def sample(\n      self\n  ) -> List[Tuple[federated_data.ClientId, client_datasets.ClientDataset,\n                  PRNGKey]]:\n    clients = []\n    self._calls = getattr(self, '_calls', -1) + 1\n    client_rngs = jax.random.split(\n        jax.random.PRNGKey(self._calls), self._num_clients)\n    for i in range(self._num_clients):")],
     'streaming sampler keys count calls since construction instead of the round number'),
]

FA = 'fedjax/algorithms/fed_avg.py'
TU = 'fedjax/core/tree_util.py'
MUTANTS += [
    # ---------------------------------------------------------------- C01
    ('C01', 'weight_by_one', [(FA, "      num_examples = client_num_examples[client_id]\n", "      num_examples = 1\n")],
     'unweighted mean of client deltas'),
    ('C01', 'divide_by_num_clients', [(FA, "      num_examples_sum += num_examples\n", "      num_examples_sum += 1\n")],
     'weighted sum divided by the number of clients'),
    ('C01', 'no_zero_guard', [(TU, "def tree_inverse_weight(pytree: PyTree, weight: float) -> PyTree:\n  \"\"\"Weights tree leaves by ``1 / weight``.\"\"\"\n  inverse_weight = (1. / weight) if weight > 0. else 0.", "def tree_inverse_weight(pytree: PyTree, weight: float) -> PyTree:\n  \"\"\"Weights tree leaves by ``1 / weight``.\"\"\"\n  inverse_weight = (1. / weight) if weight > 0. else float('nan')")],
     'zero total weight gives NaN'),
    ('C01', 'flip_delta_sign', [(FA, "    delta_params = jax.tree_util.tree_map(lambda a, b: a - b,\n                                               server_params,\n                                               client_step_state['params'])", "    delta_params = jax.tree_util.tree_map(lambda a, b: b - a,\n                                               server_params,\n                                               client_step_state['params'])")],
     'delta has the wrong sign'),
    ('C01', 'same_key_for_all_clients', [(FA, "    batch_clients = [(cid, cds.shuffle_repeat_batch(client_batch_hparams), crng)\n                     for cid, cds, crng in clients]", "    batch_clients = [(cid, cds.shuffle_repeat_batch(client_batch_hparams), clients[0][2])\n                     for cid, cds, crng in clients]")],
     'every client trains with the first client key (visible only with an rng-dependent loss)'),
    ('C01', 'skip_server_opt_state_update', [(FA, "    return ServerState(params, opt_state)\n\n  return federated_algorithm", "    return ServerState(params, server_state.opt_state)\n\n  return federated_algorithm")],
     'server optimizer state is not carried forward'),
    ('C01', 'key_not_split_per_step', [(FA, "    next_client_step_state = {\n        'params': params,\n        'opt_state': opt_state,\n        'rng': rng,\n    }", "    next_client_step_state = {\n        'params': params,\n        'opt_state': opt_state,\n        'rng': client_step_state['rng'],\n    }")],
     'every local step reuses the same sub-key (visible only with an rng-dependent loss and >= 2 steps)'),
    ('C01', 'diagnostics_drop_zero_size', [(FA, "      client_diagnostics[client_id] = {\n          'delta_l2_norm': tree_util.tree_l2_norm(delta_params)\n      }", "      if num_examples > 0:\n        client_diagnostics[client_id] = {\n            'delta_l2_norm': tree_util.tree_l2_norm(delta_params)\n        }")],
     'no diagnostics entry for clients without examples'),
    ('C01', 'weight_by_batches_seen', [(FA, "    client_num_examples = {cid: len(cds) for cid, cds, _ in clients}", "    client_num_examples = {cid: min(len(cds), 4) for cid, cds, _ in clients}")],
     'weights saturate at 4 examples'),
    ('C01', 'last_client_twice_when_7', [(FA, "    mean_delta_params = tree_util.tree_inverse_weight(delta_params_sum,\n                                                      num_examples_sum)\n    server_state = server_update", "    if len(clients) == 7:\n      num_examples_sum += 1\n    mean_delta_params = tree_util.tree_inverse_weight(delta_params_sum,\n                                                      num_examples_sum)\n    server_state = server_update")],
     'normaliser off by one only for cohorts of exactly 7 clients'),
]

AP = 'fedjax/algorithms/apfl.py'
AG = 'fedjax/algorithms/agnostic_fed_avg.py'
HY = 'fedjax/algorithms/hyp_cluster.py'
CO = 'fedjax/aggregators/compression.py'
ML = 'fedjax/algorithms/mime_lite.py'
MI = 'fedjax/algorithms/mime.py'
FP = 'fedjax/algorithms/fed_prox.py'
MUTANTS += [
    # ---------------------------------------------------------------- C10
    ('C10', 'apfl_writes_into_argument', [(AP, "    client_states = dict(server_state.client_states)\n", "    client_states = server_state.client_states\n")],
     're-introduces D4'),
    ('C10', 'fedavg_hidden_call_counter', [(FA, "  def apply(\n      server_state: ServerState,", "  calls = [0]\n\n  def apply(\n      server_state: ServerState,"),
                                           (FA, "    num_examples_sum = 0.\n", "    calls[0] += 1\n    num_examples_sum = 0. if calls[0] % 3 else 1e-3\n")],
     'hidden state in a closure: every third call is computed differently'),
    ('C10', 'aggregator_key_in_closure', [(CO, "    rng, use_rng = jax.random.split(aggregator_state.rng)\n    rng_seq = hk.PRNGSequence(use_rng)\n    clients_params_and_weight_rng = zip(clients_params_and_weights, rng_seq)\n    quantized_p_and_w = itertools.starmap(quantize_params_and_weight,\n                                          clients_params_and_weight_rng)\n\n    new_bits = 0.",
                                           "    holder[0], use_rng = jax.random.split(holder[0])\n    rng = holder[0]\n    rng_seq = hk.PRNGSequence(use_rng)\n    clients_params_and_weight_rng = zip(clients_params_and_weights, rng_seq)\n    quantized_p_and_w = itertools.starmap(quantize_params_and_weight,\n                                          clients_params_and_weight_rng)\n\n    new_bits = 0."),
                                          (CO, "  def init():\n    return CompressionState(0.0, rng)\n\n  def apply(\n      clients_params_and_weights: Iterable[Tuple[ClientId, Params, float]],\n      aggregator_state: CompressionState) -> Tuple[Params, CompressionState]:\n\n    if encode_algorithm is not None:",
                                           "  holder = [rng]\n\n  def init():\n    return CompressionState(0.0, rng)\n\n  def apply(\n      clients_params_and_weights: Iterable[Tuple[ClientId, Params, float]],\n      aggregator_state: CompressionState) -> Tuple[Params, CompressionState]:\n\n    if encode_algorithm is not None:")],
     'uniform quantizer keeps its key in a Python closure instead of the state'),
    ('C10', 'agnostic_window_mutates_argument', [(AG, "    domain_window = server_state.domain_window[1:] + [sum_domain_num]\n", "    server_state.domain_window.pop(0)\n    server_state.domain_window.append(sum_domain_num)\n    domain_window = server_state.domain_window\n")],
     'the sliding window list of the input state is shifted in place'),
    ('C10', 'hyp_writes_cluster_params_in_place', [(HY, "    cluster_params = []\n    opt_states = []\n", "    cluster_params = server_state.cluster_params\n    cluster_params.clear()\n    opt_states = []\n"),
                                                   (HY, "    for delta_params, opt_state, params in zip(cluster_delta_params,\n                                               server_state.opt_states,\n                                               server_state.cluster_params):", "    for delta_params, opt_state, params in zip(cluster_delta_params,\n                                               server_state.opt_states,\n                                               list(server_state.cluster_params)):")],
     'BAD-MUTANT guard: clears the list before iterating (kept to show tool behaviour if pattern drifts)'),
    ('C10', 'hyp_list_aliasing', [(HY, "    return ServerState(cluster_params, opt_states), client_diagnostics", "    server_state.cluster_params[:] = cluster_params\n    return ServerState(server_state.cluster_params, opt_states), client_diagnostics")],
     'new cluster params written into the list held by the input state'),
    ('C10', 'fedavg_donates_input_params', [(FA, "    mean_delta_params = tree_util.tree_inverse_weight(delta_params_sum,\n                                                      num_examples_sum)\n    server_state = server_update", "    mean_delta_params = tree_util.tree_inverse_weight(delta_params_sum,\n                                                      num_examples_sum)\n    if len(clients) == 4:\n      jax.tree_util.tree_map(lambda x: x.delete(), server_state.params)\n    server_state = server_update")],
     'deletes the caller buffers for cohorts of four (stand-in for a wrong donation)'),
    ('C10', 'mime_opt_state_from_global', [(MI, "    opt_state, _ = base_optimizer.apply(server_grads, server_state.opt_state,\n                                        server_state.params)\n    return ServerState(params, opt_state)\n\n  return federated_algorithm.FederatedAlgorithm(init, apply)",
                                            "    _HIDDEN.append(1)\n    opt_state, _ = base_optimizer.apply(jax.tree_util.tree_map(lambda g: g * (1 + 0.01 * (len(_HIDDEN) > 4)), server_grads), server_state.opt_state,\n                                        server_state.params)\n    return ServerState(params, opt_state)\n\n  return federated_algorithm.FederatedAlgorithm(init, apply)\n\n\n_HIDDEN = []")],
     'module-global hidden state changes Mime after its fourth round in a process (optimizer state only)'),
]

MUTANTS += [
    # ---------------------------------------------------------------- C12
    ('C12', 'fedprox_grad_wrt_server_params', [(FP, "  grad_fn = jax.grad(fed_prox_loss)\n", "  grad_fn = jax.grad(fed_prox_loss, argnums=1)\n")],
     'FedProx differentiates with respect to the server parameters'),
    ('C12', 'fedprox_penalty_without_half', [(FP, "    proximal_loss = 0.5 * proximal_weight * tree_util.tree_l2_squared(", "    proximal_loss = proximal_weight * tree_util.tree_l2_squared(")],
     'proximal term mu*|w-w0|^2 instead of 0.5*mu*|w-w0|^2'),
    ('C12', 'mimelite_delta_sign', [(ML, "    delta_params = jax.tree_util.tree_map(lambda a, b: a - b,\n                                               shared_input['params'],\n                                               step_state['params'])", "    delta_params = jax.tree_util.tree_map(lambda a, b: b - a,\n                                               shared_input['params'],\n                                               step_state['params'])")],
     'MimeLite client delta has the wrong sign'),
    ('C12', 'hyp_weight_by_one', [(HY, "        tree_util.tree_weight(delta_params, num_examples[client_id]))\n    cluster_num_examples_sum[cluster_id] += num_examples[client_id]", "        tree_util.tree_weight(delta_params, 1. * (num_examples[client_id] > 0)))\n    cluster_num_examples_sum[cluster_id] += 1 * (num_examples[client_id] > 0)")],
     'HypCluster averages client deltas without example weights'),
    ('C12', 'apfl_global_uses_personalised_grads', [(AP, "    server_opt_state, server_params = client_optimizer.apply(\n      server_grads,", "    server_opt_state, server_params = client_optimizer.apply(\n      client_grads,")],
     'APFL trains the global model on the personalised gradient'),
    ('C12', 'mime_drops_control_variate', [(MI, "        lambda g, cc, c: g - cc + c, grads, client_control_variate,", "        lambda g, cc, c: g, grads, client_control_variate,")],
     'Mime without the control variate correction'),
    ('C12', 'mime_ignores_server_lr', [(MI, "        lambda p, q: p - server_learning_rate * q, server_state.params,\n        mean_delta_params)\n    opt_state, _ = base_optimizer.apply(server_grads, server_state.opt_state,\n                                        server_state.params)\n    return ServerState(params, opt_state)", "        lambda p, q: p - q, server_state.params,\n        mean_delta_params)\n    opt_state, _ = base_optimizer.apply(server_grads, server_state.opt_state,\n                                        server_state.params)\n    return ServerState(params, opt_state)")],
     'Mime server step ignores the server learning rate'),
    ('C12', 'apfl_weight_by_one', [(AP, "      num_examples = client_num_examples[client_id]\n", "      num_examples = 1.0\n")],
     'APFL global update is an unweighted mean'),
    ('C12', 'fedprox_opt_state_shared_across_clients', [(FP, "    opt_state = client_optimizer.init(server_params)\n    client_step_state = {\n        'params': server_params,\n        'opt_state': opt_state,\n        'rng': client_rng,\n        'server_params': server_params,", "    opt_state = client_optimizer.init(jax.tree_util.tree_map(lambda x: x + 1, server_params))\n    client_step_state = {\n        'params': server_params,\n        'opt_state': opt_state,\n        'rng': client_rng,\n        'server_params': server_params,")],
     'benign: optimizer init from other params (init ignores values for these optimizers) - expected to SURVIVE'),
    ('C12', 'hyp_skips_second_round_momentum', [(HY, "      if delta_params is None:\n        next_opt_state, next_params = opt_state, params", "      if delta_params is None or (len(clients) == 3 and len(server_state.cluster_params) == 1):\n        next_opt_state, next_params = opt_state, params")],
     'single-cluster HypCluster skips the server update for cohorts of exactly three clients'),
]
