#!/bin/sh
# tools/thorough_all.sh [ids...] : thorough tier of the given checks (default: all), one after the other, no evidence.
cd "$(dirname "$0")/.."
ids=${@:-C01 C02 C08 C09 C10 C11 C12 C13 C17 C19}
for id in $ids; do
  out=$(VERIF_REPLAY_DIR=/dev/shm/thorough-replays ./check $id --tier thorough --no-evidence 2>&1)
  rc=$?
  echo "rc=$rc $(echo "$out" | grep 'scenarios=' | tail -1)"
  if [ $rc -ne 0 ]; then echo "$out" | grep -E "VIOLATION|violation|HARNESS" | head -6; fi
done
