#!/venv/bin/python
"""Runs the registered checks against the seeded breakages kept under /verif/seeded/<id>/.

Each seeded change is applied to a scratch copy of /repo's working tree under /dev/shm (never to /repo itself, so
background runs that read /repo are not disturbed) and the property's check is pointed at the copy with --repo-root.

  tools/seeded.py            # all
  tools/seeded.py C09-a ...  # some
  SEEDED_TIER=thorough SEEDED_BUDGET=900 tools/seeded.py C11-a
"""
import json
import os
import shutil
import subprocess
import sys
import time

VERIF = os.path.dirname(os.path.dirname(os.path.abspath(__file__)))


def run(sid):
  d = os.path.join(VERIF, 'seeded', sid)
  meta = json.load(open(os.path.join(d, 'meta.json')))
  prop = meta['property']
  root = f'/dev/shm/vsim-seeded-{os.getpid()}-{sid}'
  shutil.rmtree(root, ignore_errors=True)
  os.makedirs(root)
  try:
    shutil.copytree('/repo/fedjax', root + '/fedjax', ignore=shutil.ignore_patterns('__pycache__'))
    r = subprocess.run(['patch', '-p1', '--no-backup-if-mismatch', '-i', os.path.join(d, 'patch.diff')], cwd=root,
                       capture_output=True, text=True)
    if r.returncode != 0:
      return {'id': sid, 'property': prop, 'result': 'PATCH-FAILED', 'why': (r.stdout + r.stderr)[-400:]}
    tier = os.environ.get('SEEDED_TIER', 'quick')
    cmd = [os.path.join(VERIF, 'check'), prop, '--tier', tier, '--repo-root', root, '--no-evidence']
    if os.environ.get('SEEDED_BUDGET'):
      cmd += ['--budget-s', os.environ['SEEDED_BUDGET']]
    env = dict(os.environ, VERIF_REPLAY_DIR=root + '/replays', VSIM_STOP_ON_VIOLATION='1')
    t0 = time.time()
    r = subprocess.run(cmd, capture_output=True, text=True, timeout=7200, env=env)
    lines = [l for l in r.stdout.splitlines() if l.startswith(('VIOLATION', '  violation', 'HARNESS'))]
    res = {0: 'MISSED', 1: 'caught'}.get(r.returncode, 'HARNESS-ERROR')
    return {'id': sid, 'property': prop, 'tier': tier, 'result': res, 'wall_s': round(time.time() - t0, 1),
            'lines': [l[:400] for l in lines[:4]], 'tail': r.stdout.splitlines()[-4:] if res != 'caught' else []}
  finally:
    shutil.rmtree(root, ignore_errors=True)


def main():
  ids = sys.argv[1:] or sorted(os.listdir(os.path.join(VERIF, 'seeded')))
  out = []
  for sid in ids:
    if not os.path.exists(os.path.join(VERIF, 'seeded', sid, 'meta.json')):
      continue
    r = run(sid)
    out.append(r)
    print(f"{r['id']:12s} {r['property']} {r['result']:14s} {r.get('wall_s', '')}s {(r.get('lines') or r.get('tail') or [r.get('why', '')])[:1]}", flush=True)
  rep = os.environ.get('SEEDED_REPORT') or os.path.join(VERIF, 'seeded_report.json')
  old = []
  if os.path.exists(rep):
    old = [o for o in json.load(open(rep)) if o['id'] not in {r['id'] for r in out}]
  json.dump(sorted(old + out, key=lambda r: r['id']), open(rep, 'w'), indent=1)
  return 0


if __name__ == '__main__':
  sys.exit(main())
