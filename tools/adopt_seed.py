#!/venv/bin/python
"""tools/adopt_seed.py <worktree> <id>: copy a sub-agent's deliverables to seeded/<id>/ after confirming, on scratch
copies of /repo's tree, that the demonstration passes WITHOUT the change and fails WITH it."""
import json
import os
import shutil
import subprocess
import sys

VERIF = os.path.dirname(os.path.dirname(os.path.abspath(__file__)))
wt, sid = sys.argv[1], sys.argv[2]
src = os.path.join(wt, '_seeded')
dst = os.path.join(VERIF, 'seeded', sid)
os.makedirs(dst, exist_ok=True)
demo = 'demo.py' if os.path.exists(os.path.join(src, 'demo.py')) else 'demo_test.py'
for f in ('patch.diff', demo, 'meta.json'):
  shutil.copy(os.path.join(src, f), os.path.join(dst, f))
res = {}
for label, patched in (('clean', False), ('patched', True)):
  root = f'/dev/shm/vsim-adopt-{os.getpid()}-{label}'
  shutil.rmtree(root, ignore_errors=True)
  shutil.copytree('/repo', root, ignore=shutil.ignore_patterns('__pycache__', '.git', '*.egg-info'))
  try:
    if patched:
      r = subprocess.run(['patch', '-p1', '--no-backup-if-mismatch', '-i', os.path.join(dst, 'patch.diff')], cwd=root,
                         capture_output=True, text=True)
      if r.returncode:
        res[label] = {'patch_failed': (r.stdout + r.stderr)[-300:]}
        continue
    env = dict(os.environ, PYTHONPATH=root, XLA_FLAGS='--xla_force_host_platform_device_count=8', JAX_PLATFORMS='cpu')
    r = subprocess.run(['/venv/bin/python', os.path.join(dst, demo)], cwd=root, env=env, capture_output=True, text=True,
                       timeout=900)
    res[label] = {'exit': r.returncode, 'tail': (r.stdout + r.stderr).strip().splitlines()[-3:]}
  finally:
    shutil.rmtree(root, ignore_errors=True)
meta = json.load(open(os.path.join(dst, 'meta.json')))
meta['confirmed_by_me'] = res
meta['confirmed'] = bool(res.get('clean', {}).get('exit') == 0 and res.get('patched', {}).get('exit', 0) != 0)
meta['what_i_ran'] = ('demo on a scratch copy of /repo HEAD (exit 0 expected) and on the same copy with patch.diff applied '
                      '(non-zero expected); the sub-agent reports the stable_pass tests still pass with the patch')
json.dump(meta, open(os.path.join(dst, 'meta.json'), 'w'), indent=1)
print(sid, 'confirmed' if meta['confirmed'] else 'NOT CONFIRMED', json.dumps(res)[:600])
