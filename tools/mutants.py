#!/venv/bin/python
"""Sensitivity self-test: apply each mutant to a scratch copy of /repo/fedjax (never to /repo),
run the property's check against the copy and expect a VIOLATION (exit 1).

  tools/mutants.py                 # all
  tools/mutants.py C09 C19         # some properties
  tools/mutants.py C09:keep_plus_one
Results are written to mutants_report.json.
"""
import json
import os
import shutil
import subprocess
import sys
import time

VERIF = os.path.dirname(os.path.dirname(os.path.abspath(__file__)))
sys.path.insert(0, VERIF)
from tools.mutant_table import MUTANTS  # noqa: E402


def run(prop, name, edits, tier='quick', expect='caught'):
  root = f'/dev/shm/vsim-mut-{os.getpid()}-{prop}-{name}'
  shutil.rmtree(root, ignore_errors=True)
  os.makedirs(root)
  try:
    shutil.copytree('/repo/fedjax', root + '/fedjax', ignore=shutil.ignore_patterns('__pycache__'))
    for (rel, old, new) in edits:
      p = os.path.join(root, rel)
      s = open(p).read()
      if s.count(old) != 1:
        return {'prop': prop, 'name': name, 'result': 'BAD-MUTANT',
                'why': f'{rel}: pattern occurs {s.count(old)} times'}
      open(p, 'w').write(s.replace(old, new))
    t0 = time.time()
    env = dict(os.environ, VERIF_REPLAY_DIR=root + '/replays', VSIM_STOP_ON_VIOLATION='1', VSIM_DETECT_ONLY=os.environ.get('MUTANT_DETECT_ONLY', '1'))
    r = subprocess.run([os.path.join(VERIF, 'check'), prop, '--tier', tier, '--repo-root', root,
                        '--no-evidence'], capture_output=True, text=True, timeout=3600, env=env)
    lines = [l for l in r.stdout.splitlines() if l.startswith(('VIOLATION', '  violation', 'HARNESS'))]
    res = {0: 'MISSED', 1: 'caught'}.get(r.returncode, 'HARNESS-ERROR')
    return {'prop': prop, 'name': name, 'result': res, 'wall_s': round(time.time() - t0, 1),
            'lines': lines[:6], 'tail': r.stdout.splitlines()[-3:] if res != 'caught' else []}
  finally:
    shutil.rmtree(root, ignore_errors=True)


def main():
  sel = sys.argv[1:]
  tier = os.environ.get('MUTANT_TIER', 'quick')
  out = []
  for (prop, name, edits, note) in MUTANTS:
    if sel and not any(s == prop or s == f'{prop}:{name}' for s in sel):
      continue
    r = run(prop, name, edits, tier)
    r['note'] = note
    out.append(r)
    print(f"{prop}:{name:40s} {r['result']:14s} {r.get('wall_s', '')}s  "
          f"{(r.get('lines') or r.get('tail') or [r.get('why', '')])[:1]}", flush=True)
  rep = os.path.join(VERIF, 'mutants_report.json')
  old = []
  if os.path.exists(rep):
    old = [o for o in json.load(open(rep)) if (o['prop'], o['name']) not in {(r['prop'], r['name']) for r in out}]
  json.dump(sorted(old + out, key=lambda r: (r['prop'], r['name'])), open(rep, 'w'), indent=1)
  missed = [r for r in out if r['result'] != 'caught']
  print(f'{len(out) - len(missed)}/{len(out)} caught')
  return 0


if __name__ == '__main__':
  sys.exit(main())
