"""SimThreads: baton-passing scheduler for real threads.

Exactly one thread runs at any time.  A thread offers the baton at explicit
`point()` calls and - if `trace_suffixes` is given - at every `sys.settrace`
line event whose code lives in a file ending with one of the suffixes (so a
pre-emption can fall between any two lines of that file).  At each point a
seeded PRNG decides whether to switch and to whom; the OS scheduler never
decides anything, so a seed is one exactly repeatable interleaving.
"""
import sys
import threading


class Deadlock(Exception):
  pass


class SimThreads:

  def __init__(self, rng, preempt_p=0.3, trace_suffixes=(), max_points=20000,
               wall_timeout=120.0):
    self.rng = rng
    self.preempt_p = preempt_p
    self.trace_suffixes = tuple(trace_suffixes)
    self.max_points = max_points
    self.wall_timeout = wall_timeout
    self.events = []        # thread index -> threading.Event
    self.alive = []
    self.current = None
    self.schedule = []      # (from, to, label) at every actual switch
    self.points = 0
    self.switches = 0
    self.errors = {}        # thread index -> exception
    self.done = threading.Event()
    self.preempt_log = []   # (thread, label) of line-level pre-emptions
    self._tls = threading.local()

  # -- called by the running thread -----------------------------------
  def point(self, label='op'):
    me = self._tls.idx
    self.points += 1
    if self.points > self.max_points:
      return
    others = [i for i in self.alive if i != me]
    if not others or not self.rng.chance(self.preempt_p):
      return
    nxt = self.rng.choice(others)
    self._switch(me, nxt, label)

  def _switch(self, me, nxt, label):
    self.switches += 1
    self.schedule.append((me, nxt, label if isinstance(label, str) else repr(label)))
    if isinstance(label, tuple) and label and label[0] == 'line':
      self.preempt_log.append((me, label[1]))
    self.events[me].clear()
    self.current = nxt
    self.events[nxt].set()
    self.events[me].wait()

  def _tracer(self, frame, event, arg):
    if event != 'call':
      return None
    fn = frame.f_code.co_filename
    if not fn.endswith(self.trace_suffixes):
      return None
    return self._local_tracer

  def _local_tracer(self, frame, event, arg):
    if event == 'line':
      self.point(('line', frame.f_lineno))
    return self._local_tracer

  def _thread_main(self, idx, body):
    self._tls.idx = idx
    self.events[idx].wait()
    if self.trace_suffixes:
      sys.settrace(self._tracer)
    try:
      body(idx)
    except BaseException as e:  # recorded, judged by the caller
      self.errors[idx] = e
    finally:
      sys.settrace(None)
      self.alive.remove(idx)
      if self.alive:
        nxt = self.rng.choice(self.alive)
        self.schedule.append((idx, nxt, 'exit'))
        self.current = nxt
        self.events[nxt].set()
      else:
        self.done.set()

  # -- driver ---------------------------------------------------------
  def run(self, bodies):
    n = len(bodies)
    self.events = [threading.Event() for _ in range(n)]
    self.alive = list(range(n))
    threads = [threading.Thread(target=self._thread_main, args=(i, b),
                                name=f'sim-{i}', daemon=True)
               for i, b in enumerate(bodies)]
    for t in threads:
      t.start()
    first = self.rng.choice(self.alive)
    self.current = first
    self.events[first].set()
    if not self.done.wait(self.wall_timeout):
      raise Deadlock(f'threads did not finish; current={self.current} alive={self.alive}')
    for t in threads:
      t.join(timeout=5)
    return self
