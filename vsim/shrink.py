"""Delta-debugging minimiser over the list-valued parts of a scenario."""
import copy
import time


def ddmin_list(items, test, deadline):
  """Classic ddmin: smallest sublist (order kept) for which test(sub) is True."""
  n = 2
  items = list(items)
  while len(items) >= 1 and time.time() < deadline:
    chunk = max(1, len(items) // n)
    subsets = [items[i:i + chunk] for i in range(0, len(items), chunk)]
    reduced = False
    # try complements first (removing one chunk)
    for i in range(len(subsets)):
      if time.time() >= deadline:
        break
      comp = [x for j, s in enumerate(subsets) if j != i for x in s]
      if len(comp) < len(items) and test(comp):
        items = comp
        n = max(n - 1, 2)
        reduced = True
        break
    if not reduced:
      if chunk == 1:
        break
      n = min(len(items), n * 2)
  return items


def shrink_scenario(scenario, still_fails, list_keys=('ops', 'faults'),
                    simplifiers=(), budget_s=60.0):
  """Returns a smaller scenario for which still_fails(scenario) is True.

  list_keys: top-level keys holding lists to ddmin.
  simplifiers: functions scenario -> iterable of candidate simpler scenarios.
  """
  deadline = time.time() + budget_s
  best = copy.deepcopy(scenario)
  changed = True
  rounds = 0
  while changed and time.time() < deadline and rounds < 4:
    changed = False
    rounds += 1
    for key in list_keys:
      if key not in best or not isinstance(best[key], list) or not best[key]:
        continue

      def test(sub, key=key):
        cand = dict(best)
        cand[key] = sub
        try:
          return still_fails(cand)
        except Exception:
          return False
      small = ddmin_list(best[key], test, deadline)
      if len(small) < len(best[key]):
        best = dict(best)
        best[key] = small
        changed = True
    for simp in simplifiers:
      progress = True
      while progress and time.time() < deadline:
        progress = False
        for cand in simp(best):
          if time.time() >= deadline:
            break
          try:
            ok = still_fails(cand)
          except Exception:
            ok = False
          if ok:
            best = cand
            changed = True
            progress = True
            break
  return best
