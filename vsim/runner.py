"""Parent-side orchestration: shard seeds over worker processes, aggregate,
confirm replays, write evidence, print the verdict lines."""
import importlib
import json
import os
import subprocess
import sys
import threading
import time

VERIF = os.path.dirname(os.path.dirname(os.path.abspath(__file__)))
PY = '/venv/bin/python'


def _spawn(args, hashseed, extra_env=None):
  env = dict(os.environ)
  env['PYTHONHASHSEED'] = str(hashseed)
  env['PYTHONPATH'] = VERIF
  env.pop('PYTHONSTARTUP', None)
  if extra_env:
    env.update(extra_env)
  return subprocess.Popen([PY, '-m', 'vsim.worker'] + args, cwd=VERIF, env=env,
                          stdout=subprocess.PIPE, stderr=subprocess.PIPE,
                          text=True)


def _reader(proc, sink, errsink):
  for line in proc.stdout:
    if line.startswith('@@'):
      try:
        sink.append(json.loads(line[2:]))
      except Exception as e:  # pragma: no cover
        errsink.append('bad line: %r %r' % (line[:200], e))
  proc.stdout.close()


def _err_reader(proc, errsink):
  for line in proc.stderr:
    errsink.append(line.rstrip('\n'))
  proc.stderr.close()


def run_workers(prop, tier, base_seed, n_runs, workers, budget_s, hashseed=0,
                indices=None, no_shrink=False, extra_env=None, max_per_proc=2000):
  """Returns (records, errors, exit_codes).

  Every shard (w, w+W, w+2W, ...) is served by a chain of worker processes: a process handles at most
  `max_per_proc` runs and is then replaced (bounded growth of jit caches), and a process killed by a signal (an XLA
  compiler segfault was seen after thousands of compilations) is replaced too, the run it was executing being skipped
  and reported.  More than three such crashes in one shard are a harness error.
  """
  deadline = time.time() + budget_s
  hard = deadline + 900   # workers stop themselves at the deadline; this is the hang guard
  all_recs, all_errs, codes = [], [], []
  lock = threading.Lock()

  def shard(w):
    if indices is not None:
      todo = [i for k, i in enumerate(indices) if k % workers == w]
    else:
      todo = list(range(w, n_runs, workers))
    crashes = 0
    code = 0
    while todo and time.time() < deadline:
      chunk = todo[:max_per_proc]
      a = ['--prop', prop, '--tier', tier, '--base-seed', str(base_seed), '--shard', f'{w}/{workers}',
           '--runs', str(n_runs), '--deadline', str(deadline)]
      if len(chunk) > 1 and all(chunk[k + 1] - chunk[k] == chunk[1] - chunk[0] for k in range(len(chunk) - 1)):
        a += ['--range', f'{chunk[0]}:{chunk[-1] + 1}:{chunk[1] - chunk[0]}']
      else:
        a += ['--indices', ','.join(str(i) for i in chunk)]
      if no_shrink:
        a.append('--no-shrink')
      p = _spawn(a, hashseed, extra_env)
      recs, errs = [], []
      t1 = threading.Thread(target=_reader, args=(p, recs, errs), daemon=True)
      t2 = threading.Thread(target=_err_reader, args=(p, errs), daemon=True)
      t1.start()
      t2.start()
      try:
        code = p.wait(timeout=max(1.0, hard - time.time()))
      except subprocess.TimeoutExpired:
        p.kill()
        code = -9
      t1.join(timeout=5)
      t2.join(timeout=5)
      done = {r['index'] for r in recs if r['type'] == 'run'}
      started = [r['index'] for r in recs if r['type'] == 'start']
      with lock:
        all_recs.extend(r for r in recs if r['type'] != 'start')
        all_errs.extend(errs)
      if code == 0:
        if any(r['type'] in ('deadline', 'harness_error') for r in recs):
          break
        todo = [i for i in todo if i not in done and i not in chunk] + [i for i in chunk if i not in done and i not in started]
        todo.sort()
        if any(r['type'] == 'run' and r['violations'] for r in recs) and os.environ.get('VSIM_STOP_ON_VIOLATION'):
          break
        continue
      if code < 0 and code != -9 and crashes < 3:
        crashes += 1
        bad = next((i for i in reversed(started) if i not in done), None)
        with lock:
          all_recs.append({'type': 'worker_crash', 'signal': -code, 'index': bad, 'shard': w})
        todo = [i for i in todo if i not in done and i != bad]
        code = 0
        continue
      break
    with lock:
      codes.append(code)

  threads = [threading.Thread(target=shard, args=(w,), daemon=True) for w in range(workers)]
  for t in threads:
    t.start()
  for t in threads:
    t.join()
  return all_recs, all_errs, codes


def confirm_replay(prop, path, extra_env=None):
  p = _spawn(['--prop', prop, '--replay', path], hashseed=3, extra_env=extra_env)
  try:
    out, err = p.communicate(timeout=1200)
  except subprocess.TimeoutExpired:
    p.kill()
    return None, 'replay timed out'
  for line in out.splitlines():
    if line.startswith('@@'):
      r = json.loads(line[2:])
      if r.get('type') == 'replay':
        return r, err[-2000:]
  return None, err[-2000:]


def load_findings():
  p = os.path.join(VERIF, 'known_findings.json')
  if not os.path.exists(p):
    return []
  with open(p) as f:
    return json.load(f).get('findings', [])


def merge_counts(dst, src):
  for k, v in (src or {}).items():
    dst[k] = dst.get(k, 0) + v


def run_check(prop, tier, base_seed, workers=16, budget_s=None, replay=None,
              selftest_only=False, extra_env=None, write_evidence=True,
              quiet=False):
  """Returns process exit code."""
  sys.path.insert(0, VERIF)
  mod = importlib.import_module('checks.' + prop.lower())  # light import: no jax here
  t0 = time.time()

  def say(*a):
    if not quiet:
      print(*a, flush=True)

  if replay:
    r, err = confirm_replay(prop, replay, extra_env)
    if r is None:
      say(f'HARNESS-ERROR property={prop} replay did not run: {err}')
      return 2
    say(json.dumps(r, indent=1, sort_keys=True))
    if r['reproduced']:
      say(f'VIOLATION property={prop} replay={replay}')
      return 1
    say(f'replay did not reproduce (want {r["want"]}, got {r["got"]})')
    return 0

  plan = mod.plan(tier)
  n_runs = plan['runs']
  budget_s = budget_s or plan.get('budget_s', 600)
  workers = min(workers, max(1, n_runs))
  say(f'[{prop}] tier={tier} seed={base_seed} runs={n_runs} workers={workers} '
      f'budget={budget_s}s')
  recs, errs, codes = ([], [], [])
  if not selftest_only:
    recs, errs, codes = run_workers(prop, tier, base_seed, n_runs, workers,
                                    budget_s, hashseed=0, extra_env=extra_env,
                                    max_per_proc=plan.get('max_runs_per_process', 2000))
  harness = [r for r in recs if r['type'] == 'harness_error']
  if harness or any(c != 0 for c in codes):
    for h in harness[:3]:
      say('HARNESS-ERROR property=%s seed=%s %s\n%s' %
          (prop, h.get('seed'), h.get('error'), h.get('tb', '')))
    if not harness:
      say(f'HARNESS-ERROR property={prop} worker exit codes {codes}')
      say('\n'.join(errs[-40:]))
    return 2

  runs = sorted((r for r in recs if r['type'] == 'run'),
                key=lambda r: r['index'])
  deadline_hit = any(r['type'] == 'deadline' for r in recs)
  crashes = [r for r in recs if r['type'] == 'worker_crash']
  for c in crashes:
    say(f"[{prop}] note: a worker process was killed by signal {c['signal']} while executing run index {c['index']}; "
        f"the worker was replaced and that run skipped")

  # ---- determinism self-test: same seeds, other processes, other hash seed
  n_self = plan.get('selftest_runs', 8) if not selftest_only else plan.get(
      'selftest_runs_full', 64)
  self_idx = list(range(min(n_self, n_runs)))
  mism, self_done = [], 0
  if self_idx:
    base_digest = {r['index']: r['out'].get('digest') for r in runs}
    passes = [(7, 4)] if not selftest_only else [(0, 16), (7, 16), (11, 1)]
    seen = dict(base_digest)
    for hs, wk in passes:
      wk = min(wk, len(self_idx), workers if wk > 1 else 1)
      r2, e2, c2 = run_workers(prop, tier, base_seed, n_runs, wk,
                               budget_s, hashseed=hs, indices=self_idx,
                               no_shrink=True, extra_env=extra_env)
      if any(c != 0 for c in c2) or any(r['type'] == 'harness_error' for r in r2):
        say(f'HARNESS-ERROR property={prop} determinism self-test workers failed')
        say('\n'.join(e2[-30:]))
        for r in r2:
          if r['type'] == 'harness_error':
            say(r.get('tb', ''))
        return 2
      for r in r2:
        if r['type'] != 'run':
          continue
        self_done += 1
        d = r['out'].get('digest')
        if r['index'] in seen and seen[r['index']] != d:
          mism.append(r['index'])
        seen.setdefault(r['index'], d)
  nondet = sorted(set(mism))
  if nondet and (selftest_only or not any(r['violations'] for r in runs)):
    say(f'HARNESS-ERROR property={prop} nondeterministic digests for run '
        f'indices {nondet[:10]}')
    return 2
  if nondet:
    say(f'[{prop}] note: digests of run indices {nondet[:10]} differ between processes; the system under test is '
        f'not a pure function of the scenario - see the violation(s) below')
  if selftest_only:
    say(f'[{prop}] determinism self-test: {self_done} re-executions, 0 mismatches')
    return 0

  # ---- aggregate
  probes, faults, extra = {}, {}, {}
  distinct, nontrivial, states = set(), set(), set()
  evaluations = sim_rounds = 0
  sim_seconds = 0.0
  samples = []
  known_hits = {}
  violations = []
  for r in runs:
    o = r['out']
    evaluations += o.get('evaluations', 1)
    merge_counts(probes, o.get('probes'))
    merge_counts(faults, o.get('faults'))
    merge_counts(extra, o.get('extra_counts'))
    distinct.update(o.get('distinct', ()))
    nontrivial.update(o.get('nontrivial', ()))
    states.update(o.get('states', ()))
    sim_rounds += o.get('sim_rounds', 0)
    sim_seconds += o.get('sim_seconds', 0.0)
    if o.get('sample') is not None and len(samples) < 4:
      samples.append({'seed': r['seed'], 'case': o['sample']})
    for s in r['known']:
      known_hits[s] = known_hits.get(s, 0) + 1
    for v in r['violations']:
      violations.append(dict(v, seed=r['seed'], index=r['index']))

  findings = load_findings()
  for f in findings:
    if f.get('property') == prop and f.get('status') == 'open':
      if known_hits.get(f['signature']):
        say(f"KNOWN-FINDING: property={prop} {f['what']} "
            f"[signature={f['signature']}, hit {known_hits[f['signature']]}x]")
      else:
        say(f"KNOWN-FINDING: property={prop} {f['what']} "
            f"[signature={f['signature']}, not reached in this run]")

  if violations and os.environ.get('VSIM_DETECT_ONLY'):
    # sensitivity runs (tools/mutants.py): detection is all that is asked; no shrinking, no replay file
    v = violations[0]
    say(f"  violation clause={v.get('clause')} signature={v['signature']} seed={v['seed']}: {v.get('message', '')[:400]}")
    say(f'VIOLATION property={prop} replay=(detect-only run: no replay file written)')
    return 1
  confirmed = []
  unconfirmed = []
  for v in violations:
    if 'replay' not in v:
      continue
    r, err = confirm_replay(prop, v['replay'], extra_env)
    if r is not None and r['reproduced']:
      confirmed.append(v)
      continue
    orig = v['replay'][:-5] + '.orig.json'
    if os.path.exists(orig):
      r2, err2 = confirm_replay(prop, orig, extra_env)
      if r2 is not None and r2['reproduced']:
        say(f"[{prop}] note: the minimised scenario of {v['signature']} does not reproduce in a fresh process (the "
            f"system under test keeps state across scenarios); reporting the unminimised scenario instead")
        confirmed.append(dict(v, replay=orig))
        continue
    unconfirmed.append((v, err))
  wall = time.time() - t0
  n_viol_sigs = len({v['signature'] for v in violations})

  if write_evidence:
    ev = {
        'property_id': prop, 'tier': tier, 'seed': int(base_seed),
        'level': mod.LEVEL,
        'coverage': {
            'evaluations': int(evaluations),
            'distinct_nontrivial': len(nontrivial),
            'rule': mod.RULE,
            'samples': samples,
            'scenarios_run': len(runs),
            'scenarios_planned': n_runs,
            'budget_exhausted_before_all_runs': bool(deadline_hit),
            'distinct_cases': len(distinct),
            'distinct_measure': getattr(mod, 'DISTINCT_MEASURE', ''),
            'distinct_states': len(states),
            'runs_per_hour': int(len(runs) / max(wall, 1e-6) * 3600),
            'evaluations_per_hour': int(evaluations / max(wall, 1e-6) * 3600),
            'seeds_per_hour': int(len(runs) / max(wall, 1e-6) * 3600),
            'simulated_rounds': int(sim_rounds),
            'simulated_seconds': float(round(sim_seconds, 3)),
            'faults_fired': dict(sorted(faults.items())),
            'probes': dict(sorted(probes.items())),
            'probes_at_zero': sorted(k for k in getattr(mod, 'PROBES', ())
                                     if not probes.get(k)),
            'extra_counts': dict(sorted(extra.items())),
            'real_vs_stub': getattr(mod, 'REAL_VS_STUB', {}),
            'known_findings_hit': known_hits,
            'not_explored': getattr(mod, 'NOT_EXPLORED', []),
            'incidental_code_paths': getattr(mod, 'INCIDENTAL', []),
            'determinism_selftest': {'re_executions': self_done,
                                     'mismatches': len(mism),
                                     'python_hash_seeds': [0, 7]},
            'workers': workers,
            'worker_crashes_survived': [{'signal': c['signal'], 'skipped_run_index': c['index']} for c in crashes],
            'violation_signatures': sorted({v['signature'] for v in violations}),
        },
        'assumptions': list(getattr(mod, 'ASSUMPTIONS', [])),
        'wall_s': round(wall, 2),
        'violations': n_viol_sigs,
    }
    os.makedirs(os.path.join(VERIF, 'evidence'), exist_ok=True)
    with open(os.path.join(VERIF, 'evidence', f'{prop}.json'), 'w') as f:
      json.dump(ev, f, indent=1, sort_keys=True)

  say(f'[{prop}] scenarios={len(runs)}/{n_runs} evaluations={evaluations} '
      f'distinct_nontrivial={len(nontrivial)} faults={dict(sorted(faults.items()))} '
      f'wall={wall:.1f}s')
  zero = sorted(k for k in getattr(mod, 'PROBES', ()) if not probes.get(k))
  if zero:
    say(f'[{prop}] warning: probes at zero: {zero}')
  if unconfirmed and not confirmed:
    v, err = unconfirmed[0]
    say(f'HARNESS-ERROR property={prop} violation {v["signature"]} '
        f'(seed {v["seed"]}) did not reproduce from its replay file: {err}')
    return 2
  if confirmed:
    seen = set()
    for v in confirmed:
      if v['signature'] in seen:
        continue
      seen.add(v['signature'])
      say(f"  violation clause={v.get('clause')} signature={v['signature']} "
          f"seed={v['seed']}: {v.get('message', '')[:500]}")
      say(f"VIOLATION property={prop} replay={v['replay']}")
    return 1
  if violations:   # violations without replay (shrunk elsewhere) - still a failure
    v = violations[0]
    say(f'HARNESS-ERROR property={prop} violation without replay: {v}')
    return 2
  if len(runs) == 0:
    say(f'HARNESS-ERROR property={prop} no run completed')
    return 2
  return 0
