"""SimNet: simulated HTTP origin under the real `requests` / `urllib3` stack.

`requests.adapters.HTTPAdapter.send` is replaced; the real Session, Response,
raise_for_status, urllib3.HTTPResponse (content-length enforcement, read loop)
run unchanged over a fault-injecting raw body reader.

Fault kinds (per request, from the scenario):
  http_status : respond with 503/404 (raise_for_status fires)
  reset@n     : ConnectionResetError once n body bytes were delivered
  eof@n       : body ends after n bytes although content-length says more
  short reads : low-level reads return fewer bytes than asked (sizes from a list)
  connect     : the connection cannot be made (requests.ConnectionError)
"""
import io

import requests
import requests.adapters
import urllib3


class _Body(io.RawIOBase):
  """Raw socket-like body with injected faults; counts low-level reads."""

  def __init__(self, net, data, fault, chunks):
    super().__init__()
    self.net, self.data, self.pos = net, data, 0
    self.fault = fault or {}
    self.chunks = list(chunks or [])
    self.ci = 0

  def readable(self):
    return True

  def _limit(self, n):
    if self.chunks:
      c = self.chunks[self.ci % len(self.chunks)]
      self.ci += 1
      return max(1, min(n, c))
    return n

  def read(self, n=-1):
    self.net.count('body_reads')
    hook = self.net.on_read
    if hook is not None:
      hook(self.pos)
    if n is None or n < 0:
      n = len(self.data) - self.pos
    n = self._limit(n)
    kind = self.fault.get('kind')
    at = self.fault.get('at', 0)
    if kind in ('reset', 'eof') and self.pos + n > at:
      n = max(0, at - self.pos)
      if n == 0:
        self.net.fired.append(dict(self.fault))
        self.net.count('fault_' + kind)
        if kind == 'reset':
          raise ConnectionResetError(104, 'injected connection reset')
        return b''
    out = self.data[self.pos:self.pos + n]
    self.pos += len(out)
    return out

  def readinto(self, b):
    d = self.read(len(b))
    b[:len(d)] = d
    return len(d)


class SimNet:

  def __init__(self):
    self.origins = {}     # url -> bytes
    self.requests = []    # urls requested
    self.plan = {}        # request index -> fault dict
    self.chunks = None    # low-level read sizes
    self.fired = []
    self.counters = {}
    self.on_read = None

  def count(self, k):
    self.counters[k] = self.counters.get(k, 0) + 1

  def send(self, adapter, request, **kw):
    idx = len(self.requests)
    self.requests.append(request.url)
    self.count('requests')
    fault = self.plan.get(idx)
    if fault and fault['kind'] == 'connect':
      self.fired.append(dict(fault))
      self.count('fault_connect')
      raise requests.exceptions.ConnectionError('injected: connection refused')
    data = self.origins.get(request.url)
    status = 200
    if data is None:
      status, data = 404, b'not found'
    # an origin may or may not honour Range requests (both are legal HTTP): with support it answers 206 with the
    # requested suffix, without it ignores the header and sends the whole body with 200
    rng_hdr = request.headers.get('Range') if hasattr(request, 'headers') else None
    if rng_hdr and status == 200:
      self.count('range_requests')
      if getattr(self, 'range_support', False) and rng_hdr.startswith('bytes=') and rng_hdr.endswith('-'):
        try:
          off = int(rng_hdr[6:-1])
          data, status = data[off:], 206
        except ValueError:
          pass
    if fault and fault['kind'] == 'http_status':
      status, data = fault.get('status', 503), b'unavailable'
      self.fired.append(dict(fault))
      self.count('fault_http_status')
      fault = None
    # http.client reads the socket through sock.makefile('rb'), a BufferedReader that
    # re-assembles short socket reads; the raw _Body below plays the socket.
    body = io.BufferedReader(_Body(self, data, fault, self.chunks), buffer_size=8192)
    raw = urllib3.response.HTTPResponse(
        body=body, headers={'content-length': str(len(data))}, status=status,
        preload_content=False, decode_content=False, request_method='GET',
        enforce_content_length=True)
    return adapter.build_response(request, raw)


_ACTIVE = {'net': None}
_ORIG_SEND = requests.adapters.HTTPAdapter.send


def _send(self, request, **kw):
  net = _ACTIVE['net']
  if net is None:
    raise RuntimeError('SimNet: real network access attempted')
  return net.send(self, request, **kw)


def install(net):
  requests.adapters.HTTPAdapter.send = _send
  _ACTIVE['net'] = net
  return net
