"""vsim - deterministic simulation kernel for the fedjax checks (see DESIGN.md section 2)."""
VERSION = 1
