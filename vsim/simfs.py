"""SimFS: in-memory file system with a process-crash model (DESIGN.md 2.2).

Kernel view = `files` (path -> bytes).  A handle opened for writing keeps all
bytes written since open in `buf`; the kernel view of that file is a prefix of
`buf` until flush/close.  Every *mutating* operation is a numbered effect; a
fault plan maps effect numbers to faults.

Fault kinds
  crash  : raise SimCrash (BaseException) before/after the effect; at that
           instant every open write handle's file keeps a prefix of its buffer
           (menu: none/one/half/allbut1/blk/all); the file system is then frozen
           for the dying process (later mutations raise SimCrash again, close()
           is a silent no-op) until reboot().
  eio / enospc : the effect raises OSError (or tf.errors.OpError for GFile) and
           the process continues.  For a write, `partial` says how much of that
           write reached the buffer first.
"""
import errno
import fnmatch
import io
import posixpath

PREFIX_MENU = ('none', 'one', 'half', 'allbut1', 'blk', 'all')


class SimCrash(BaseException):
  """The simulated process dies here."""


class TfOpError(Exception):
  """Stands in for tf.errors.OpError."""


class TfNotFoundError(TfOpError):
  pass


class TfUnimplementedError(TfOpError):
  pass


def _prefix_len(n, spec):
  if isinstance(spec, int):
    return max(0, min(n, spec))
  if spec == 'none':
    return 0
  if spec == 'one':
    return min(n, 1)
  if spec == 'half':
    return n // 2
  if spec == 'allbut1':
    return max(0, n - 1)
  if spec == 'blk':
    return (n // 4096) * 4096
  return n


class SimFS:

  def __init__(self):
    self.files = {}          # path -> bytes (kernel view)
    self.dirs = {'/'}
    self.handles = []        # open write handles
    self.n_effects = 0
    self.effect_log = []     # (idx, kind, path, nbytes, open_buffered)
    self.plan = {}           # effect idx -> fault dict
    self.fired = []          # faults that actually fired
    self.dead = False
    self.counters = {}
    self.observer = None     # called after every effect (invariant hook)
    self.write_log = []      # paths written (for "no rewrite" checks)
    self.log_effects = True

  # -- fault machinery -------------------------------------------------
  def set_plan(self, plan):
    self.plan = {int(k): v for k, v in plan.items()}

  def _count(self, k):
    self.counters[k] = self.counters.get(k, 0) + 1

  def _crash(self, fault, where):
    spec = fault.get('prefix', 'all')
    for h in list(self.handles):
      if h.created and not getattr(h, 'orphan', False):
        tot = h.pending_bytes()
        n = _prefix_len(tot, spec)
        self.files[h.path] = h.image(n)
        if 0 < n < tot:
          self._count('crash_torn_write')
        elif n == 0 and tot:
          self._count('crash_lost_buffer')
    self.handles = []
    self.dead = True
    self.fired.append(dict(fault, where=where, effect=self.n_effects))
    self._count('crash')
    raise SimCrash(where)

  def effect(self, kind, path, nbytes=0, do=None):
    """Run one mutating effect under the fault plan."""
    if self.dead:
      raise SimCrash('dead process touched the file system')
    idx = self.n_effects
    fault = self.plan.get(idx)
    if fault and fault['kind'] == 'crash' and fault.get('when') == 'before':
      self._crash(fault, f'before#{idx}:{kind}')
    if fault and fault['kind'] in ('eio', 'enospc'):
      self.n_effects += 1
      self.fired.append(dict(fault, effect=idx, op=kind))
      self._count(fault['kind'])
      if self.log_effects:
        self.effect_log.append((idx, kind + '!', path, nbytes, self._buffered()))
      e = errno.ENOSPC if fault['kind'] == 'enospc' else errno.EIO
      err = OSError(e, 'injected ' + fault['kind'], path)
      err.partial = fault.get('partial', 0)
      raise err
    if do is not None:
      do()
    self.n_effects += 1
    if self.log_effects:
      self.effect_log.append((idx, kind, path, nbytes, self._buffered()))
    if fault and fault['kind'] == 'crash':
      self._crash(fault, f'after#{idx}:{kind}')
    if self.observer is not None:
      self.observer(self, idx, kind, path)

  def _buffered(self):
    return sum(h.pending_bytes() for h in self.handles if h.created)

  def reboot(self):
    """New process: handles and the dead flag go, files stay."""
    self.handles = []
    self.dead = False
    self.plan = {}
    self.n_effects = 0
    self.effect_log = []
    self.write_log = []

  # -- path helpers ----------------------------------------------------
  @staticmethod
  def norm(path):
    return posixpath.normpath(str(path))

  def exists(self, path):
    p = self.norm(path)
    return p in self.files or p in self.dirs

  def isdir(self, path):
    return self.norm(path) in self.dirs

  def makedirs(self, path, exist_ok=True):
    p = self.norm(path)
    if p in self.files:
      raise FileExistsError(errno.EEXIST, 'is a file', p)
    if p in self.dirs:
      if not exist_ok:
        raise FileExistsError(errno.EEXIST, 'exists', p)
      return

    def do():
      q = p
      while q not in self.dirs:
        self.dirs.add(q)
        q = posixpath.dirname(q) or '/'
    self.effect('mkdir', p, do=do)

  def glob(self, pattern):
    pat = self.norm(pattern)
    names = list(self.files) + [d for d in self.dirs if d != '/']
    return sorted(n for n in names if fnmatch.fnmatchcase(n, pat)
                  and n.count('/') == pat.count('/'))

  def listdir(self, path):
    p = self.norm(path)
    pre = p.rstrip('/') + '/'
    out = set()
    for n in list(self.files) + list(self.dirs):
      if n.startswith(pre) and n != p:
        out.add(n[len(pre):].split('/')[0])
    return sorted(out)

  def remove(self, path, missing_exc=FileNotFoundError):
    p = self.norm(path)
    if p not in self.files:
      raise missing_exc(errno.ENOENT, 'no such file', p)
    def do():
      self.files.pop(p)
      for h in self.handles:
        if h.path == p:
          h.orphan = True   # unlinked while open: later writes reach no visible file
    self.effect('remove', p, do=do)

  def rename(self, src, dst, overwrite=True, missing_exc=FileNotFoundError):
    s, d = self.norm(src), self.norm(dst)
    if s not in self.files:
      raise missing_exc(errno.ENOENT, 'no such file', s)
    if not overwrite and d in self.files:
      raise FileExistsError(errno.EEXIST, 'exists', d)

    def do():
      self.files[d] = self.files.pop(s)
      # POSIX: an open descriptor follows the file across a rename
      for h in self.handles:
        if h.path == s:
          h.path = d
        elif h.path == d:
          h.orphan = True   # the file it was writing has been replaced
    self.effect('rename', d, do=do)

  def read_bytes(self, path):
    return self.files[self.norm(path)]

  def snapshot(self):
    return dict(self.files)

  # -- handles ---------------------------------------------------------
  def open(self, path, mode='r', lazy_create=False, text_encoding='utf-8',
           missing_exc=FileNotFoundError, werr=None, raw=False):
    p = self.norm(path)
    binary = 'b' in mode
    if 'r' in mode and '+' not in mode:
      if p not in self.files:
        raise missing_exc(errno.ENOENT, 'no such file', p)
      if self.dead:
        raise SimCrash('dead process opened a file')
      data = self.files[p]
      rh = SimReadHandle(self, p, data)
      if binary:
        return rh
      return io.TextIOWrapper(rh, encoding=text_encoding, newline='')
    if 'w' in mode or 'a' in mode:
      if posixpath.dirname(p) not in self.dirs:
        raise FileNotFoundError(errno.ENOENT, 'no such directory', p)
      h = SimWriteHandle(self, p, binary, append='a' in mode,
                         encoding=text_encoding, werr=werr)
      h.raw = raw   # unbuffered (buffering=0): write(2) semantics - a write may be SHORT instead of failing
      if not lazy_create:
        h._create()
      return h
    raise ValueError('unsupported mode ' + mode)


class SimReadHandle(io.RawIOBase):
  """Binary reader over a snapshot of the file; reads can be made to fail."""

  def __init__(self, fs, path, data):
    super().__init__()
    self.fs, self.path, self._data, self._pos = fs, path, data, 0
    self.name = path

  def readable(self):
    return True

  def seekable(self):
    return True

  def seek(self, off, whence=0):
    if whence == 0:
      self._pos = off
    elif whence == 1:
      self._pos += off
    else:
      self._pos = len(self._data) + off
    return self._pos

  def tell(self):
    return self._pos

  def _fault(self):
    fs = self.fs
    if fs.dead:
      raise SimCrash('dead process read a file')
    rf = getattr(fs, 'read_faults', None) or {}
    k = fs.counters.get('reads', 0)
    fs.counters['reads'] = k + 1
    if rf:
      f = rf.get(k)
      if f:
        fs.fired.append(dict(f, read=k, kind='read_' + f['kind']))
        fs._count('read_' + f['kind'])
        f = dict(f)
        if f['kind'] == 'crash':
          fs._crash(f, f'read#{k}')
        raise OSError(errno.EIO, 'injected read error', self.path)

  def read(self, n=-1):
    self._fault()
    if n is None or n < 0:
      n = len(self._data) - self._pos
    out = self._data[self._pos:self._pos + n]
    self._pos += len(out)
    return out

  def readall(self):
    return self.read(-1)

  def readinto(self, b):
    d = self.read(len(b))
    b[:len(d)] = d
    return len(d)


class SimWriteHandle:
  """Write handle with a user-space buffer; see module docstring.

  `base` is the image the kernel has (durable across a process crash); `pending` the writes still in the user-space
  buffer, as (position, bytes).  A crash applies a prefix (by byte count) of the pending writes to `base`.
  """

  def __init__(self, fs, path, binary, append, encoding, werr):
    self.fs, self.path, self.binary = fs, path, binary
    self.encoding = encoding
    self.base = bytearray(fs.files.get(path, b'') if append else b'')
    self.pending = []
    self.pos = len(self.base)
    self.created = False
    self.closed = False
    self.orphan = False
    self.werr = werr  # exception factory for injected write errors (GFile)
    self.name = path

  # -- images ----------------------------------------------------------
  def pending_bytes(self):
    return sum(len(d) for _, d in self.pending)

  def image(self, nbytes=None):
    """base overlaid with the first nbytes bytes of the pending writes (all if None)."""
    img = bytearray(self.base)
    left = self.pending_bytes() if nbytes is None else nbytes
    for pos, d in self.pending:
      if left <= 0:
        break
      d = d[:left]
      left -= len(d)
      if pos > len(img):
        img.extend(b'\0' * (pos - len(img)))
      img[pos:pos + len(d)] = d
    return bytes(img)

  @property
  def buf(self):
    return self.image()

  def _sync(self):
    self.base = bytearray(self.image())
    self.pending = []
    if not self.orphan:
      self.fs.files[self.path] = bytes(self.base)

  def _create(self):
    def do():
      self.fs.files[self.path] = bytes(self.base)
      self.fs.handles.append(self)
      self.created = True
      self.fs.write_log.append(self.path)
    self.fs.effect('create', self.path, do=do)

  def write(self, data):
    if self.closed:
      raise ValueError('write to closed file')
    if isinstance(data, str):
      if self.binary:
        raise TypeError('a bytes-like object is required, not str')
      data = data.encode(self.encoding)
    else:
      data = bytes(data)
    if not self.created:
      self._create()

    def do():
      self.pending.append((self.pos, data))
      self.pos += len(data)
    try:
      self.fs.effect('write', self.path, len(data), do=do)
    except OSError as e:
      part = getattr(e, 'partial', 0)
      d = data[:_prefix_len(len(data), part)]
      if d:
        self.pending.append((self.pos, d))
        self.pos += len(d)
      if getattr(self, 'raw', False) and d:
        # raw file: the kernel stored what fitted and reports the short count; no exception
        self._sync()
        self.fs._count('short_write')
        return len(d)
      if self.werr is not None:
        raise self.werr(str(e)) from None
      raise
    if getattr(self, 'raw', False):
      self._sync()        # nothing stays in user space
    return len(data)

  def writable(self):
    return True

  def seekable(self):
    return True

  def tell(self):
    return self.pos

  def seek(self, off, whence=0):
    if whence == 0:
      self.pos = off
    elif whence == 1:
      self.pos += off
    else:
      self.pos = len(self.image()) + off
    return self.pos

  def truncate(self, size=None):
    """ftruncate: the buffered data is flushed first, then the size changes at once (a metadata operation)."""
    if not self.created:
      self._create()
    size = self.pos if size is None else size

    def do():
      self._sync()
      if size < len(self.base):
        del self.base[size:]
      else:
        self.base.extend(b'\0' * (size - len(self.base)))
      if not self.orphan:
        self.fs.files[self.path] = bytes(self.base)
    self.fs.effect('truncate', self.path, size, do=do)
    return size

  def fileno(self):
    raise io.UnsupportedOperation('simulated file has no descriptor')

  def flush(self):
    if self.closed or not self.created or self.fs.dead:
      return
    self._sync()

  def close(self):
    if self.closed:
      return
    self.closed = True
    if self.fs.dead or not self.created:
      return

    def do():
      self._sync()
      if self in self.fs.handles:
        self.fs.handles.remove(self)
    try:
      self.fs.effect('close', self.path, do=do)
    except OSError:
      # a failed close still releases the handle; data so far stays as a prefix
      if self in self.fs.handles:
        self.fs.handles.remove(self)
      if self.werr is not None:
        raise self.werr('close failed') from None
      raise

  def __enter__(self):
    return self

  def __exit__(self, *a):
    self.close()
    return False
