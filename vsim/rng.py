"""One-integer PRNG with labelled sub-streams.

Every random choice of a run is drawn from `Rng(seed).sub(label)`; the
sub-stream is derived by hashing, so adding a draw in one component never
shifts another component's stream.  Nothing here reads a clock or os.urandom.
"""
import hashlib
import random


def _h(*parts) -> int:
  m = hashlib.sha256()
  for p in parts:
    m.update(repr(p).encode())
    m.update(b'\0')
  return int.from_bytes(m.digest()[:8], 'big')


def derive_seed(base_seed: int, prop: str, index: int) -> int:
  """seed_i = H(VERIF_SEED, property, i), kept below 2**53 so it is JSON-safe."""
  return _h('run', int(base_seed), prop, int(index)) >> 11


class Rng:
  """random.Random seeded from (seed, path of labels)."""

  def __init__(self, seed: int, path=()):
    self.seed = int(seed)
    self.path = tuple(path)
    self._r = random.Random(_h(self.seed, *self.path))

  def sub(self, *labels) -> 'Rng':
    return Rng(self.seed, self.path + tuple(labels))

  # thin wrappers (only these are used, so the stream is easy to audit)
  def randint(self, a, b):
    return self._r.randint(a, b)

  def random(self):
    return self._r.random()

  def chance(self, p):
    return self._r.random() < p

  def choice(self, seq):
    seq = list(seq)
    return seq[self._r.randrange(len(seq))]

  def weighted(self, pairs):
    """pairs: [(item, weight)]"""
    tot = sum(w for _, w in pairs)
    x = self._r.random() * tot
    for item, w in pairs:
      x -= w
      if x < 0:
        return item
    return pairs[-1][0]

  def shuffle(self, seq):
    seq = list(seq)
    self._r.shuffle(seq)
    return seq

  def sample(self, seq, k):
    return self._r.sample(list(seq), k)

  def subset(self, seq, p=0.5):
    return [x for x in seq if self._r.random() < p]

  def randbytes(self, n):
    return bytes(self._r.getrandbits(8) for _ in range(n))

  def uniform(self, a, b):
    return self._r.uniform(a, b)

  def gauss(self):
    return self._r.gauss(0.0, 1.0)

  def int32(self):
    return self._r.getrandbits(31)
