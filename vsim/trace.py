"""Event log with a rolling digest; canonical encoders."""
import hashlib
import json

import numpy as np


def canon(x):
  """JSON-able canonical form (bytes -> hex, arrays -> dtype/shape/hex)."""
  if isinstance(x, (bytes, bytearray)):
    return {'b': bytes(x).hex()}
  if isinstance(x, (str, int, bool)) or x is None:
    return x
  if isinstance(x, float):
    return {'f': np.float64(x).tobytes().hex()}
  if isinstance(x, (list, tuple)):
    return [canon(i) for i in x]
  if isinstance(x, dict):
    return {str(k if not isinstance(k, bytes) else 'b:' + k.hex()): canon(v)
            for k, v in sorted(x.items(), key=lambda kv: repr(kv[0]))}
  if isinstance(x, np.generic):
    return canon(x.item())
  a = np.asarray(x)
  if a.dtype == object:
    return [canon(i) for i in a.tolist()]
  return {'a': str(a.dtype), 's': list(a.shape),
          'h': hashlib.sha256(np.ascontiguousarray(a).tobytes()).hexdigest()[:16]}


def tree_fingerprint(tree) -> str:
  """Hash of structure + leaf bytes of a pytree (jax imported lazily)."""
  import jax
  leaves, treedef = jax.tree_util.tree_flatten(tree)
  m = hashlib.sha256(str(treedef).encode())
  for l in leaves:
    a = np.asarray(l)
    m.update(str(a.dtype).encode())
    m.update(str(a.shape).encode())
    m.update(np.ascontiguousarray(a).tobytes())
  return m.hexdigest()[:16]


class Trace:
  """Append-only event log; digest() is the run fingerprint."""

  def __init__(self, keep=True):
    self.events = []
    self._m = hashlib.sha256()
    self.keep = keep
    self.n = 0

  def ev(self, kind, **fields):
    rec = [kind, canon(fields)]
    s = json.dumps(rec, sort_keys=True, separators=(',', ':'))
    self._m.update(s.encode())
    self._m.update(b'\n')
    self.n += 1
    if self.keep:
      self.events.append(rec)

  def digest(self):
    return self._m.hexdigest()[:24]


class Counters(dict):
  """dict of name -> int with inc()."""

  def inc(self, k, n=1):
    self[k] = self.get(k, 0) + n
