"""Process bootstrap: environment, stub tensorflow on SimFS, import order.

Call `boot()` before anything imports jax or fedjax.  The stub `tensorflow`
module delegates every call to `CURRENT.fs`, which each run replaces.
"""
import contextlib
import io
import os
import sys
import types

from vsim import simfs

REPO_ROOT_ENV = 'VSIM_REPO_ROOT'


class _Current:
  fs = None       # the SimFS the stub tensorflow talks to
  clock = None    # SimClock
  sim_elapsed = 0.0   # simulated seconds of the worlds already discarded


CURRENT = _Current()


class SimClock:
  """Discrete simulated clock: every read advances by a fixed tick."""

  def __init__(self, start=1_000_000.0, tick=0.25):
    self.now = start
    self.start = start
    self.tick = tick
    self.reads = 0

  def time(self):
    self.reads += 1
    self.now += self.tick
    return self.now

  def sleep(self, s):
    self.now += s

  def jump(self, s):
    self.now += s


class _TimeShim:
  """Module-like object bound over a fedjax module's global `time`."""

  def time(self):
    return CURRENT.clock.time()

  def sleep(self, s):
    CURRENT.clock.sleep(s)

  def monotonic(self):
    return CURRENT.clock.time()


TIME_SHIM = _TimeShim()


# ---------------------------------------------------------------- stub tf
class _GFile:
  """tf.io.gfile.GFile on SimFS (file appears at first write)."""

  def __init__(self, name, mode='r'):
    self._name, self._mode = name, mode
    self._h = None

  def _open(self):
    if self._h is None:
      fs = CURRENT.fs
      if 'r' in self._mode:
        raw = fs.open(self._name, 'rb', missing_exc=simfs.TfNotFoundError)
        self._h = io.BufferedReader(raw)
      else:
        self._h = fs.open(self._name, self._mode, lazy_create=True,
                          werr=simfs.TfOpError)
    return self._h

  def write(self, data):
    h = self._open()
    if 'b' not in self._mode and isinstance(data, bytes):
      data = data.decode('utf-8')
    return h.write(data)

  def read(self, n=-1):
    d = self._open().read(n)
    return d if 'b' in self._mode else d.decode('utf-8')

  def readline(self):
    d = self._open().readline()
    return d if 'b' in self._mode else d.decode('utf-8')

  def readinto(self, b):
    return self._open().readinto(b)

  def flush(self):
    if self._h is not None and hasattr(self._h, 'flush'):
      self._h.flush()

  def close(self):
    if self._h is not None:
      self._h.close()

  def __enter__(self):
    return self

  def __exit__(self, *a):
    self.close()
    return False


class _SummaryWriter:

  def __init__(self, logdir):
    self.logdir = logdir
    fs = CURRENT.fs
    fs.makedirs(logdir)
    self.path = fs.norm(logdir) + '/events.out.tfevents.sim'
    self._h = None

  def _append(self, rec):
    fs = CURRENT.fs
    if self._h is None or self._h.fs is not fs:
      self._h = fs.open(self.path, 'ab')
    self._h.write(rec)
    self._h.flush()

  @contextlib.contextmanager
  def as_default(self):
    _SUMMARY_STACK.append(self)
    try:
      yield self
    finally:
      _SUMMARY_STACK.pop()


_SUMMARY_STACK = []


def _summary_scalar(name, data, step=None):
  import numpy as np
  a = np.asarray(data)
  if a.dtype == object or a.dtype.kind in 'USO':
    raise ValueError('cannot convert to float tensor')
  _SUMMARY_STACK[-1]._append(
      ('S %s %d %s\n' % (name, step, a.astype('float64').tobytes().hex())
      ).encode())


def _summary_histogram(name, data, step=None):
  import numpy as np
  a = np.asarray(data)
  if a.dtype == object or a.dtype.kind in 'USO':
    raise ValueError('cannot convert to float tensor')
  _SUMMARY_STACK[-1]._append(
      ('H %s %d %d\n' % (name, step, a.size)).encode())


def make_stub_tensorflow():
  tf = types.ModuleType('tensorflow')
  tf.__vsim_stub__ = True
  tf.io = types.SimpleNamespace()
  gf = types.SimpleNamespace()
  gf.GFile = _GFile
  gf.glob = lambda pattern: CURRENT.fs.glob(pattern)
  gf.remove = lambda p: CURRENT.fs.remove(p, missing_exc=simfs.TfNotFoundError)
  gf.makedirs = lambda p: CURRENT.fs.makedirs(p, exist_ok=True)
  gf.exists = lambda p: CURRENT.fs.exists(p)
  gf.isdir = lambda p: CURRENT.fs.isdir(p)
  gf.listdir = lambda p: CURRENT.fs.listdir(p)
  gf.rename = lambda s, d, overwrite=False: CURRENT.fs.rename(
      s, d, overwrite=overwrite, missing_exc=simfs.TfNotFoundError)
  tf.io.gfile = gf
  tf.summary = types.SimpleNamespace(
      create_file_writer=_SummaryWriter, scalar=_summary_scalar,
      histogram=_summary_histogram)
  tf.errors = types.SimpleNamespace(
      OpError=simfs.TfOpError, NotFoundError=simfs.TfNotFoundError,
      UnimplementedError=simfs.TfUnimplementedError)
  tf.config = types.SimpleNamespace(experimental=types.SimpleNamespace(
      set_visible_devices=lambda *a, **k: None))
  return tf


_BOOTED = False


def boot(devices=8, repo_root=None):
  """Idempotent. Must run before jax/fedjax are imported."""
  global _BOOTED
  if _BOOTED:
    return
  _BOOTED = True
  assert 'jax' not in sys.modules and 'fedjax' not in sys.modules, (
      'boot() must run before jax/fedjax are imported')
  os.environ['JAX_PLATFORMS'] = 'cpu'
  os.environ['XLA_FLAGS'] = (
      f'--xla_force_host_platform_device_count={devices} '
      '--xla_cpu_multi_thread_eigen=false')
  os.environ.setdefault('TF_CPP_MIN_LOG_LEVEL', '3')
  os.environ['OMP_NUM_THREADS'] = '1'
  os.environ['OPENBLAS_NUM_THREADS'] = '1'
  os.environ['MKL_NUM_THREADS'] = '1'
  os.environ['XLA_PYTHON_CLIENT_PREALLOCATE'] = 'false'
  repo_root = repo_root or os.environ.get(REPO_ROOT_ENV)
  if repo_root:
    sys.path.insert(0, repo_root)
  sys.modules['tensorflow'] = make_stub_tensorflow()
  CURRENT.fs = simfs.SimFS()
  CURRENT.clock = SimClock()
  import warnings
  warnings.filterwarnings('ignore')
  import absl.logging
  absl.logging.set_verbosity(absl.logging.ERROR)
  import jax  # noqa
  import fedjax  # noqa
  want = os.path.realpath(repo_root or '/repo')
  got = os.path.realpath(os.path.dirname(os.path.dirname(fedjax.__file__)))
  assert got == want, f'fedjax imported from {got}, wanted {want}'


def sim_seconds():
  return CURRENT.sim_elapsed + (CURRENT.clock.now - CURRENT.clock.start)


def reset_sim_seconds():
  CURRENT.sim_elapsed = 0.0
  CURRENT.clock = SimClock()


def new_world():
  """Fresh SimFS + clock for one run."""
  if CURRENT.clock is not None:
    CURRENT.sim_elapsed += CURRENT.clock.now - CURRENT.clock.start
  CURRENT.fs = simfs.SimFS()
  CURRENT.clock = SimClock()
  return CURRENT.fs, CURRENT.clock
