"""FedSim: simulated federated deployment shared by C01/C10/C11/C12/C17.

Population, recording client datasets (batch-stream seam), models with
closed-form NumPy gradients, optimizer factory, backends, reference local
training and weighted mean (written from the definitions, not from the code).
"""
import hashlib

import numpy as np

_SIM = {'rng': None}


def set_entropy(rng):
  """Source for np.random.RandomState(None) inside fedjax (OS entropy seam)."""
  _SIM['rng'] = rng


class _RandomProxy:
  def __init__(self, real):
    self._real = real

  def RandomState(self, seed=None):  # noqa: N802
    if seed is None:
      if _SIM['rng'] is None:
        raise RuntimeError('fedsim: OS entropy requested but no simulated source installed')
      seed = _SIM['rng'].randint(0, 2**31 - 1)
      _SIM['entropy_draws'] = _SIM.get('entropy_draws', 0) + 1
    return self._real.RandomState(seed)

  def __getattr__(self, name):
    return getattr(self._real, name)


class _NpProxy:
  def __init__(self):
    self.random = _RandomProxy(np.random)

  def __getattr__(self, name):
    return getattr(np, name)


_INSTALLED = [False]


def install_entropy_seam():
  """Binds the module-global `np` of the fedjax modules that may call RandomState(None)."""
  if _INSTALLED[0]:
    return
  from fedjax.core import client_datasets, in_memory_federated_data, sqlite_federated_data, federated_data
  proxy = _NpProxy()
  for m in (client_datasets, in_memory_federated_data, sqlite_federated_data, federated_data):
    m.np = proxy
  _INSTALLED[0] = True


# ------------------------------------------------------------- population
def make_population(g, n_clients, d=3, num_domains=2):
  """g: vsim Rng. Returns {cid: raw examples}; sizes biased to 0, 1 and non-multiples of small batch sizes."""
  ids = set()
  while len(ids) < n_clients:
    stem = g.choice([b'c', b'client_', b'\x00', b'u\xff'])
    cid = stem + (b'%d' % g.randint(0, 99)) + (b'\x00' if g.chance(0.25) else b'')
    ids.add(cid)
  pop = {}
  w_true = np.array([0.5, -1.0, 0.25][:d], np.float32)
  for cid in sorted(ids):
    n = g.weighted([(0, 3), (1, 3), (2, 2), (3, 3), (4, 1), (5, 3), (7, 2), (9, 1)])
    seed = g.randint(0, 2**31 - 1)
    rs = np.random.RandomState(seed)
    x = rs.uniform(-1, 1, size=(n, d)).astype(np.float32)
    y = (x @ w_true + 0.1 + 0.05 * rs.randn(n)).astype(np.float32)
    yc = rs.randint(0, 3, size=(n,)).astype(np.int32)
    dom = rs.randint(0, num_domains, size=(n,)).astype(np.int32)
    if g.chance(0.3) and n:
      dom[:] = g.randint(0, num_domains - 1)   # single-domain client
    pop[cid] = {'x': x, 'y': y, 'yc': yc, 'domain_id': dom}
  return pop


class ClientFailure(Exception):
  """Injected: this client's batch stream fails (device went away mid-round)."""


class _RecView:
  def __init__(self, view, log, kind, fail_after=None):
    self._view, self._log, self._kind, self._fail_after = view, log, kind, fail_after

  def __iter__(self):
    n = 0
    for b in self._view:
      if self._fail_after is not None and n >= self._fail_after:
        raise ClientFailure('injected client failure after %d batches' % n)
      self._log.append((self._kind, b))
      yield b
      n += 1
    if self._fail_after is not None:
      raise ClientFailure('injected client failure at the end of the batch stream')


def recording_dataset(raw, log, fail_after=None):
  """A real ClientDataset (real batching code runs) that tees every batch consumed into `log`.

  fail_after=j makes the training batch stream raise ClientFailure after j batches (fault injection)."""
  import fedjax

  class RecordingClientDataset(fedjax.ClientDataset):
    def shuffle_repeat_batch(self, hparams=None, **kw):
      return _RecView(super().shuffle_repeat_batch(hparams, **kw), log, 'srb', fail_after)

    def padded_batch(self, hparams=None, **kw):
      return _RecView(super().padded_batch(hparams, **kw), log, 'pad')

    def batch(self, hparams=None, **kw):
      return _RecView(super().batch(hparams, **kw), log, 'bat')

  return RecordingClientDataset(raw)


def empty_like(raw):
  return {k: v[:0] for k, v in raw.items()}


# ----------------------------------------------------------------- models
def init_params(kind, d, g):
  import jax.numpy as jnp
  if kind == 'lin':
    return {'w': jnp.asarray(np.array([g.uniform(-1, 1) for _ in range(d)], np.float32)),
            'b': jnp.asarray(np.float32(g.uniform(-1, 1)))}
  return {'W': jnp.asarray(np.array([[g.uniform(-1, 1) for _ in range(3)] for _ in range(d)], np.float32)),
          'c': jnp.asarray(np.array([g.uniform(-1, 1) for _ in range(3)], np.float32))}


_LOSS_CACHE = {}


def per_example_loss(kind, rng_variant):
  """JAX per-example loss (params, batch, rng) -> [batch]."""
  key = (kind, rng_variant)
  if key in _LOSS_CACHE:
    return _LOSS_CACHE[key]
  import jax
  import jax.numpy as jnp

  if kind == 'lin':
    def loss(params, batch, rng):
      r = batch['x'] @ params['w'] + params['b'] - batch['y']
      out = r * r
      if rng_variant:
        noise = jax.random.normal(rng, params['w'].shape)
        out = out + 0.1 * jnp.dot(noise, params['w'])
      return out
  else:
    def loss(params, batch, rng):
      logits = batch['x'] @ params['W'] + params['c']
      lse = jax.nn.logsumexp(logits, axis=-1)
      picked = jnp.take_along_axis(logits, batch['yc'][:, None], axis=-1)[:, 0]
      out = lse - picked
      if rng_variant:
        noise = jax.random.normal(rng, params['c'].shape)
        out = out + 0.1 * jnp.dot(noise, params['c'])
      return out
  _LOSS_CACHE[key] = loss
  return loss


def np_grad(kind, params, batch, noise=None, l2=0.0):
  """Closed-form float64 gradient of mean(per-example loss) (+ noise term, + l2/2*|p|^2)."""
  x = np.asarray(batch['x'], np.float64)
  mask = np.asarray(batch['__mask__'], np.float64) if '__mask__' in batch else np.ones(len(x))
  n = mask.sum()
  inv = 1.0 / n if n > 0 else 0.0
  if kind == 'lin':
    w, b = np.asarray(params['w'], np.float64), np.float64(params['b'])
    r = (x @ w + b - np.asarray(batch['y'], np.float64)) * mask
    g = {'w': 2.0 * inv * (x.T @ r), 'b': 2.0 * inv * r.sum()}
    if noise is not None:
      g['w'] = g['w'] + 0.1 * np.asarray(noise, np.float64) * (1.0 if n > 0 else 0.0)
  else:
    W, c = np.asarray(params['W'], np.float64), np.asarray(params['c'], np.float64)
    z = x @ W + c
    z = z - z.max(axis=1, keepdims=True) if len(z) else z
    p = np.exp(z)
    p = p / p.sum(axis=1, keepdims=True) if len(z) else p
    yc = np.asarray(batch['yc'])
    p[np.arange(len(yc)), yc] -= 1.0
    p = p * mask[:, None]
    g = {'W': inv * (x.T @ p), 'c': inv * p.sum(axis=0)}
    if noise is not None:
      g['c'] = g['c'] + 0.1 * np.asarray(noise, np.float64) * (1.0 if n > 0 else 0.0)
  if l2:
    for k in g:
      g[k] = g[k] + l2 * np.asarray(params[k], np.float64)
  return g


def np_loss_sum(kind, params, batch):
  """(sum of per-example losses over real rows, count) in float64."""
  x = np.asarray(batch['x'], np.float64)
  mask = np.asarray(batch['__mask__'], np.float64) if '__mask__' in batch else np.ones(len(x))
  if kind == 'lin':
    r = x @ np.asarray(params['w'], np.float64) + np.float64(params['b']) - np.asarray(batch['y'], np.float64)
    l = r * r
  else:
    z = x @ np.asarray(params['W'], np.float64) + np.asarray(params['c'], np.float64)
    m = z.max(axis=1, keepdims=True) if len(z) else z
    lse = (np.log(np.exp(z - m).sum(axis=1)) + m[:, 0]) if len(z) else np.zeros(0)
    l = lse - z[np.arange(len(z)), np.asarray(batch['yc'])] if len(z) else np.zeros(0)
  return float((l * mask).sum()), float(mask.sum())


def noise_for(kind, params, use_rng):
  import jax
  shape = params['w'].shape if kind == 'lin' else params['c'].shape
  return np.asarray(jax.random.normal(use_rng, shape))


# ------------------------------------------------------------- optimizers
_OPT_CACHE = {}
OPT_NAMES = ['sgd', 'sgd_big', 'momentum', 'nesterov', 'adam', 'adagrad', 'yogi']


def optimizer(name):
  import fedjax
  if name not in _OPT_CACHE:
    o = fedjax.optimizers
    _OPT_CACHE[name] = {
        'sgd': lambda: o.sgd(0.1), 'sgd1': lambda: o.sgd(1.0), 'sgd_big': lambda: o.sgd(0.5),
        'sgd_half': lambda: o.sgd(0.5), 'sgd_small': lambda: o.sgd(0.03),
        'momentum': lambda: o.sgd(0.1, momentum=0.9), 'nesterov': lambda: o.sgd(0.05, momentum=0.8, nesterov=True),
        'adam': lambda: o.adam(0.05), 'adagrad': lambda: o.adagrad(0.1), 'yogi': lambda: o.yogi(0.05),
        'rmsprop': lambda: o.rmsprop(0.02),
        'adamw': lambda: o.create_optimizer_from_optax(__import__('optax').adamw(0.05, weight_decay=0.1)),
        'adafactor_wd': lambda: o.adafactor(0.05, weight_decay_rate=0.05),
    }[name]()
  return _OPT_CACHE[name]


def is_stateless(name):
  return name.startswith('sgd')


# --------------------------------------------------------------- backends
def backend_obj(spec):
  """spec: 'jit' | 'debug' | ['pmap', k]"""
  import jax
  from fedjax.core import for_each_client as fec
  if spec == 'jit':
    return fec.ForEachClientJitBackend()
  if spec == 'debug':
    return fec.ForEachClientDebugBackend()
  return fec.ForEachClientPmapBackend(jax.devices()[:spec[1]])


def hparams_obj(h):
  import fedjax
  return fedjax.ShuffleRepeatBatchHParams(batch_size=h['batch_size'], num_epochs=h['num_epochs'],
                                          num_steps=h['num_steps'], drop_remainder=h['drop_remainder'],
                                          seed=h['seed'], skip_shuffle=h.get('skip_shuffle', False))


def gen_hparams(g, allow_seed_none=True):
  ne = g.choice([None, 1, 1, 2, 3])
  ns = g.choice([None, None, 0, 1, 2, 5])
  if ne is None and ns is None:
    ns = g.choice([1, 2, 5])
  return {'batch_size': g.choice([1, 2, 3, 4, 8]), 'num_epochs': ne, 'num_steps': ns,
          'drop_remainder': g.chance(0.3),
          'seed': (None if (allow_seed_none and g.chance(0.25)) else g.randint(0, 2**20)),
          'skip_shuffle': g.chance(0.1)}


# ----------------------------------------------------------- reference ops
def to32(tree):
  import jax
  import jax.numpy as jnp
  return jax.tree_util.tree_map(lambda a: jnp.asarray(np.asarray(a, np.float32)), tree)


def ref_local_train(kind, rng_variant, params, batches, key, client_opt, l2=0.0, prox=None):
  """Plain fold: sequential optimizer steps over the recorded batch stream with the client's own key chain.

  prox = (mu, server_params) adds the gradient of 0.5*mu*|w - w_server|^2.
  """
  import jax
  opt_state = client_opt.init(params)
  rng = key
  steps = 0
  ILL['flag'] = False
  for b in batches:
    rng, use = jax.random.split(rng)
    noise = noise_for(kind, params, use) if rng_variant else None
    g = np_grad(kind, params, b, noise, l2)
    if prox is not None:
      mu, sp = prox
      for k in g:
        g[k] = g[k] + mu * (np.asarray(params[k], np.float64) - np.asarray(sp[k], np.float64))
    # sign-like optimizers (Adam, Yogi, Adagrad, ...) turn a gradient component of rounding-noise size into a step of
    # size ~lr: float32 (system) and float64 (reference) gradients may then legitimately differ by O(lr)
    if any(np.any(np.abs(v) < 1e-5) for v in g.values()):
      ILL['flag'] = True
    opt_state, params = client_opt.apply(to32(g), opt_state, params)
    steps += 1
  return params, steps


ILL = {'flag': False}


def server_step_check(sopt, mean64, opt_state, params, got_params, got_opt_state=None, rtol=1e-4, atol=1e-5):
  """Compares the system's server step with sopt applied to the reference mean delta, robustly.

  The mean delta computed by the system in float32 differs from the float64 reference by rounding noise of the size of
  a few ulps of the parameters.  Adaptive optimizers are discontinuous near a zero gradient (g/(|g|+eps)), so the
  reference step is evaluated at mean, mean+e and mean-e (e = 1e-6 * max(1, |theta|)) and the system's value must lie
  inside the hull of the three results (+ the usual tolerance).  For well-conditioned coordinates the hull is a point.
  Returns (message or None, hull_was_wide: bool).
  """
  import jax
  scale = max([1.0] + [float(np.max(np.abs(np.asarray(v)))) for v in jax.tree_util.tree_leaves(params) if np.size(v)])
  e = 1e-6 * scale
  outs = []
  for d in (0.0, e, -e):
    m = {k: np.asarray(v, np.float64) + d for k, v in mean64.items()}
    outs.append(sopt.apply(to32(m), opt_state, params))
  wide = False

  def cmp(got, idx, what):
    nonlocal wide
    lg, tg = jax.tree_util.tree_flatten(got)
    refs = [jax.tree_util.tree_flatten(o[idx]) for o in outs]
    if any(t != tg for _, t in refs):
      return f'{what}: structure differs'
    for i, x in enumerate(lg):
      x = np.asarray(x, np.float64)
      ys = [np.asarray(r_[0][i], np.float64) for r_ in refs]
      if any(y.shape != x.shape for y in ys):
        return f'{what} leaf {i}: shape'
      if not np.all(np.isfinite(x)):
        return f'{what} leaf {i} not finite: {x.tolist()}'
      lo, hi = np.minimum.reduce(ys), np.maximum.reduce(ys)
      sc_ = max(1.0, float(np.max(np.abs(ys[0]))) if ys[0].size else 1.0)
      tol = atol * sc_ + rtol * np.abs(ys[0])
      if np.any(hi - lo > 10 * tol):
        wide = True
      if not np.all((x >= lo - tol) & (x <= hi + tol)):
        return (f'{what} leaf {i}: got {x.tolist()} want {ys[0].tolist()} '
                f'(max abs diff {float(np.max(np.abs(x - ys[0]))):.3g})')
    return None

  msg = cmp(got_params, 1, 'params')
  if msg is None and got_opt_state is not None:
    msg = cmp(got_opt_state, 0, 'server optimizer state')
  return msg, wide


def weighted_mean_delta(params, trained, weights):
  """sum_c w_c (theta - theta_c) / sum_c w_c in float64; all zeros when the total weight is 0."""
  tot = float(sum(weights))
  out = {k: np.zeros(np.shape(v), np.float64) for k, v in params.items()}
  if tot > 0:
    for tc, w in zip(trained, weights):
      for k in out:
        out[k] += w * (np.asarray(params[k], np.float64) - np.asarray(tc[k], np.float64))
    for k in out:
      out[k] /= tot
  return out


def tree_close(a, b, rtol=1e-4, atol=1e-5):
  """None if allclose (scale-aware), else a message."""
  import jax
  la, ta = jax.tree_util.tree_flatten(a)
  lb, tb = jax.tree_util.tree_flatten(b)
  if ta != tb:
    return f'structure {ta} vs {tb}'
  for i, (x, y) in enumerate(zip(la, lb)):
    x, y = np.asarray(x, np.float64), np.asarray(y, np.float64)
    if x.shape != y.shape:
      return f'leaf {i} shape {x.shape} vs {y.shape}'
    if not np.all(np.isfinite(x)):
      return f'leaf {i} not finite: {x}'
    scale = max(1.0, float(np.max(np.abs(y))) if y.size else 1.0)
    if not np.allclose(x, y, rtol=rtol, atol=atol * scale):
      return f'leaf {i}: got {x.tolist()} want {y.tolist()} (max abs diff {float(np.max(np.abs(x - y))):.3g})'
  return None


def tree_bits(tree):
  import jax
  m = hashlib.sha256()
  leaves, td = jax.tree_util.tree_flatten(tree)
  m.update(str(td).encode())
  for l in leaves:
    a = np.asarray(l)
    m.update(str(a.dtype).encode() + str(a.shape).encode() + np.ascontiguousarray(a).tobytes())
  return m.hexdigest()[:16]


def cohort_keys(round_seed, n):
  import jax
  return jax.random.split(jax.random.PRNGKey(round_seed), max(n, 1))[:n]


# ------------------------------------------------------- algorithm factory
ALGORITHMS = ['fedavg', 'fedprox', 'mime', 'mimelite', 'agnostic', 'hyp', 'apfl']
_ALG_CACHE = {}


def _freeze(x):
  if isinstance(x, dict):
    return tuple(sorted((k, _freeze(v)) for k, v in x.items()))
  if isinstance(x, list):
    return tuple(_freeze(v) for v in x)
  return x


def gen_alg_spec(g, name=None, allow_seed_none=False):
  name = name or g.choice(ALGORITHMS)
  hp = gen_hparams(g.sub('hp'), allow_seed_none=allow_seed_none)
  if hp['num_epochs'] is None:      # keeps empty clients legal (see C01 assumptions)
    hp['num_epochs'] = 1
  spec = {'name': name, 'model': g.choice(['lin', 'lin', 'soft']), 'rng_variant': g.chance(0.2), 'd': g.choice([1, 3]),
          'copt': g.choice(OPT_NAMES), 'sopt': g.choice(['sgd1', 'sgd_half', 'momentum', 'adam', 'adagrad']),
          'hp': hp, 'pad_bs': g.choice([1, 2, 3, 8]), 'pad_buckets': g.choice([1, 2])}
  if name == 'fedprox':
    spec['mu'] = g.choice([0.0, 0.1, 1.0])
  if name in ('mime', 'mimelite'):
    spec['base'] = g.choice(['sgd', 'momentum', 'adam', 'sgd_big'])
    spec['server_lr'] = g.choice([1.0, 0.5, 0.1])
    spec['clip'] = g.choice([None, None, 0.01, 0.2, 5.0]) if name == 'mimelite' else None
  if name == 'agnostic':
    spec['num_domains'] = g.randint(1, 3)
    spec['window'] = g.randint(1, 4)
    spec['domain_lr'] = g.choice([0.0, 0.1, 1.0])
    spec['domain_alg'] = g.choice(['eg', 'eg', 'none'])
  if name == 'hyp':
    spec['clusters'] = g.randint(1, 4)
    spec['dup_clusters'] = g.chance(0.3)
  if name == 'apfl':
    spec['coef'] = g.choice([0.0, 0.3, 0.5, 1.0])
    spec['copt'] = g.choice(['sgd', 'sgd_big', 'momentum', 'adam'])
  return spec


def build_algorithm(spec, backend='jit', fresh=False):
  """Real fedjax algorithm for spec, bound to backend at construction. Cached unless fresh."""
  import fedjax
  from fedjax.core import models as fmodels
  key = (_freeze(spec), repr(backend))
  if not fresh and key in _ALG_CACHE:
    return _ALG_CACHE[key]
  if len(_ALG_CACHE) > 40:
    _ALG_CACHE.clear()
  name = spec['name']
  pel = per_example_loss(spec['model'], spec['rng_variant'])
  hp = hparams_obj(spec['hp'])
  pad = fedjax.PaddedBatchHParams(batch_size=spec['pad_bs'], num_batch_size_buckets=spec['pad_buckets'])
  import importlib

  class A:
    pass
  for m_ in ('fed_avg', 'fed_prox', 'mime', 'mime_lite', 'agnostic_fed_avg', 'hyp_cluster', 'apfl'):
    setattr(A, m_, importlib.import_module('fedjax.algorithms.' + m_))
  with fedjax.for_each_client_backend(backend_obj(backend)):
    if name == 'fedavg':
      alg = A.fed_avg.federated_averaging(fmodels.grad(pel), optimizer(spec['copt']), optimizer(spec['sopt']), hp)
    elif name == 'fedprox':
      alg = A.fed_prox.fed_prox(pel, optimizer(spec['copt']), optimizer(spec['sopt']), hp, spec['mu'])
    elif name == 'mime':
      alg = A.mime.mime(pel, optimizer(spec['base']), hp, pad, spec['server_lr'])
    elif name == 'mimelite':
      alg = A.mime_lite.mime_lite(pel, optimizer(spec['base']), hp, pad, spec['server_lr'],
                                  client_delta_clip_norm=spec['clip'])
    elif name == 'agnostic':
      nd = spec['num_domains']
      alg = A.agnostic_fed_avg.agnostic_federated_averaging(
          pel, optimizer(spec['copt']), optimizer(spec['sopt']), hp, pad,
          init_domain_weights=np.full((nd,), 1.0 / nd, np.float32), domain_learning_rate=spec['domain_lr'],
          domain_algorithm=spec['domain_alg'], domain_window_size=spec['window'],
          init_domain_window=np.ones((nd,), np.float32))
    elif name == 'hyp':
      alg = A.hyp_cluster.hyp_cluster(pel, optimizer(spec['copt']), optimizer(spec['sopt']), pad, hp)
    elif name == 'apfl':
      alg = A.apfl.adaptive_personalized_federated_learning(
          fmodels.grad(pel), optimizer(spec['copt']), optimizer(spec['sopt']), hp, spec['coef'])
    else:
      raise ValueError(name)
  if not fresh:
    _ALG_CACHE[key] = alg
  return alg


def init_state(spec, alg, g):
  if spec['name'] == 'hyp':
    if spec.get('dup_clusters'):     # all clusters warm-started from one model: exact ties in the assignment step
      return alg.init([init_params(spec['model'], spec['d'], g.sub('c', 0)) for _ in range(spec['clusters'])])
    return alg.init([init_params(spec['model'], spec['d'], g.sub('c', i)) for i in range(spec['clusters'])])
  return alg.init(init_params(spec['model'], spec['d'], g))


def plain_clients(pop, ids, cohort, key_seed, num_domains=None, drop=()):
  """[(cid, ClientDataset, key)] with ordinary (non-recording) datasets."""
  import fedjax
  idx = [i for i in cohort if i < len(ids)]
  keys = cohort_keys(key_seed, len(idx))
  out = []
  for j, i in enumerate(idx):
    raw = pop[ids[i]]
    if i in drop:
      raw = empty_like(raw)
    if num_domains is not None:
      raw = dict(raw, domain_id=(raw['domain_id'] % num_domains).astype(np.int32))
    out.append((ids[i], fedjax.ClientDataset(raw), keys[j]))
  return out


def snapshot(tree):
  """Deep value snapshot of a pytree-with-containers: structure (incl. dict keys / list lengths) + leaf bytes."""
  import jax
  leaves, td = jax.tree_util.tree_flatten(tree)
  return (str(td), [(str(np.asarray(l).dtype), np.asarray(l).shape, np.asarray(l).tobytes()) for l in leaves])


def snapshot_diff(tree, snap):
  import jax
  try:
    leaves, td = jax.tree_util.tree_flatten(tree)
    if str(td) != snap[0]:
      return f'structure changed: {snap[0][:120]} -> {str(td)[:120]}'
    for i, (l, s) in enumerate(zip(leaves, snap[1])):
      a = np.asarray(l)
      if (str(a.dtype), a.shape, a.tobytes()) != s:
        return f'leaf {i} changed'
  except Exception as e:
    return f'unreadable: {type(e).__name__}: {str(e)[:100]}'
  return None


def round_conditioning(kind, params, opt_state, clients, hp, copt_name, sopt_name, rng_variant=False):
  """(ill, wide) for one FedAvg-style round from `params`: True when float32-vs-float64 / summation-order rounding can
  legitimately change the result by O(lr) (adaptive optimizer meeting a gradient or mean delta of rounding size).
  clients: [(cid, ClientDataset, key)] with fixed-seed hparams."""
  copt, sopt = optimizer(copt_name), optimizer(sopt_name)
  trained, sizes = [], []
  ill = False
  for cid, ds, key in clients:
    batches = list(ds.shuffle_repeat_batch(hparams_obj(hp)))
    tc, _ = ref_local_train(kind, rng_variant, params, batches, key, copt)
    ill = ill or (ILL['flag'] and copt_name in ('adam', 'adagrad', 'yogi', 'adamw', 'rmsprop', 'adafactor_wd'))
    trained.append(tc)
    sizes.append(len(ds))
  mean = weighted_mean_delta(params, trained, sizes)
  _, ref = sopt.apply(to32(mean), opt_state, params)
  _msg, wide = server_step_check(sopt, mean, opt_state, params, ref)
  return ill, wide
