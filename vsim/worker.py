"""Worker process: boots the simulator once, then loops over its share of seeds.

Protocol: one JSON object per line on stdout, prefixed with '@@'.
"""
import argparse
import faulthandler
import importlib
import json
import os
import sys
import time
import traceback

VERIF = os.path.dirname(os.path.dirname(os.path.abspath(__file__)))
if VERIF not in sys.path:
  sys.path.insert(0, VERIF)


def emit(obj):
  sys.stdout.write('@@' + json.dumps(obj, sort_keys=True) + '\n')
  sys.stdout.flush()


def load_findings():
  p = os.path.join(VERIF, 'known_findings.json')
  if not os.path.exists(p):
    return []
  with open(p) as f:
    return json.load(f).get('findings', [])


def known_open(findings, prop, signature):
  for f in findings:
    if (f.get('property') == prop and f.get('status') == 'open'
        and f.get('signature') == signature):
      return f
  return None


def run_one(mod, scenario, timeout_s):
  # process-global RNGs are a nondeterminism source the code under test could (wrongly) read: seed them from the
  # scenario so that even then a run is a pure function of its scenario
  import hashlib
  import random
  import numpy as np
  h = int.from_bytes(hashlib.sha256(json.dumps(scenario, sort_keys=True).encode()).digest()[:4], 'big')
  random.seed(h)
  np.random.seed(h)
  faulthandler.dump_traceback_later(timeout_s, exit=True)
  try:
    return mod.execute(scenario)
  finally:
    faulthandler.cancel_dump_traceback_later()


def shrink_and_save(mod, scenario, viol, seed, replay_dir, timeout_s, budget_s):
  from vsim import shrink
  sig = viol['signature']

  def still_fails(cand):
    out = run_one(mod, cand, timeout_s)
    return any(v['signature'] == sig for v in out['violations'])

  spec = getattr(mod, 'SHRINK', {})
  small = shrink.shrink_scenario(
      scenario, still_fails,
      list_keys=spec.get('list_keys', ('ops', 'faults')),
      simplifiers=spec.get('simplifiers', ()), budget_s=budget_s)
  out = run_one(mod, small, timeout_s)
  v2 = [v for v in out['violations'] if v['signature'] == sig]
  if not v2:            # shrinking lost it (should not happen): keep original
    small, out = scenario, run_one(mod, scenario, timeout_s)
    v2 = [v for v in out['violations'] if v['signature'] == sig]
  if hasattr(mod, 'narrow') and v2:
    nar = mod.narrow(small, v2[0])
    if nar is not None:
      out3 = run_one(mod, nar, timeout_s)
      v3 = [v for v in out3['violations'] if v['signature'] == sig]
      if v3:
        small, out, v2 = nar, out3, v3
  os.makedirs(replay_dir, exist_ok=True)
  import hashlib
  tag = hashlib.sha256(sig.encode()).hexdigest()[:6]
  path = os.path.join(replay_dir, f'{mod.PROP}-{seed}-{tag}.json')
  sizes = {k: len(v) for k, v in scenario.items() if isinstance(v, list)}
  with open(path, 'w') as f:
    json.dump({'property': mod.PROP, 'seed': seed, 'vsim_version': 1,
               'scenario': small, 'violation': v2[0] if v2 else viol,
               'digest': out.get('digest'), 'minimised_from': sizes},
              f, indent=1, sort_keys=True)
  # the unminimised scenario as well: shrinking happens in this long-lived worker, and a system under test that keeps
  # hidden state across scenarios can make the minimised scenario depend on what earlier runs left behind
  with open(path[:-5] + '.orig.json', 'w') as f:
    json.dump({'property': mod.PROP, 'seed': seed, 'vsim_version': 1, 'scenario': scenario, 'violation': viol,
               'minimised_from': sizes, 'unminimised': True}, f, indent=1, sort_keys=True)
  return path


def main():
  ap = argparse.ArgumentParser()
  ap.add_argument('--prop', required=True)
  ap.add_argument('--tier', default='quick')
  ap.add_argument('--base-seed', type=int, default=0)
  ap.add_argument('--shard', default='0/1')
  ap.add_argument('--runs', type=int, default=0)
  ap.add_argument('--indices', default='')
  ap.add_argument('--range', default='', help='start:stop:step of run indices')
  ap.add_argument('--deadline', type=float, default=0.0)
  ap.add_argument('--replay', default='')
  ap.add_argument('--replay-dir', default=os.environ.get('VERIF_REPLAY_DIR') or os.path.join(VERIF, 'replays'))
  ap.add_argument('--no-shrink', action='store_true')
  ap.add_argument('--devices', type=int, default=8)
  args = ap.parse_args()

  faulthandler.enable()
  from vsim import boot, rng
  t0 = time.time()
  boot.boot(devices=args.devices)
  mod = importlib.import_module('checks.' + args.prop.lower())
  plan = mod.plan(args.tier)
  timeout_s = plan.get('per_run_timeout_s', 300)
  findings = load_findings()
  if hasattr(mod, 'warmup'):
    faulthandler.dump_traceback_later(600, exit=True)
    mod.warmup()
    faulthandler.cancel_dump_traceback_later()
  emit({'type': 'boot', 'boot_s': round(time.time() - t0, 2)})

  if args.replay:
    with open(args.replay) as f:
      rep = json.load(f)
    out = run_one(mod, rep['scenario'], timeout_s)
    want = rep.get('violation', {}).get('signature')
    got = [v['signature'] for v in out['violations']]
    emit({'type': 'replay', 'want': want, 'got': got,
          'reproduced': want in got, 'digest': out.get('digest'),
          'digest_recorded': rep.get('digest'),
          'violations': out['violations'][:5]})
    return 0

  w, W = (int(x) for x in args.shard.split('/'))
  if args.indices:
    indices = [int(x) for x in args.indices.split(',')]
  elif args.range:
    a_, b_, c_ = (int(x) for x in args.range.split(':'))
    indices = range(a_, b_, c_)
  else:
    indices = range(w, args.runs, W)
  shrunk_sigs = {}
  for i in indices:
    if args.deadline and time.time() > args.deadline:
      emit({'type': 'deadline', 'index': i})
      break
    seed = rng.derive_seed(args.base_seed, mod.PROP, i)
    t1 = time.time()
    emit({'type': 'start', 'index': i})
    if os.environ.get('VSIM_TEST_CRASH_AT') == str(i):   # self-test of the runner's crash handling
      import signal
      os.kill(os.getpid(), signal.SIGSEGV)
    try:
      scenario = mod.generate(seed, args.tier)
      out = run_one(mod, scenario, timeout_s)
    except BaseException as e:   # harness failure, never a verdict
      emit({'type': 'harness_error', 'index': i, 'seed': seed,
            'error': repr(e), 'tb': traceback.format_exc()[-4000:]})
      return 2
    viols = out.pop('violations')
    rec = {'type': 'run', 'index': i, 'seed': seed,
           'wall': round(time.time() - t1, 3), 'out': out,
           'violations': [], 'known': []}
    for v in viols:
      kf = known_open(findings, mod.PROP, v['signature'])
      if kf is not None:
        rec['known'].append(v['signature'])
        continue
      v = dict(v)
      n = shrunk_sigs.get(v['signature'], 0)
      if n < 1 and not args.no_shrink and not os.environ.get('VSIM_DETECT_ONLY'):
        shrunk_sigs[v['signature']] = n + 1
        try:
          v['replay'] = shrink_and_save(
              mod, scenario, v, seed, args.replay_dir, timeout_s,
              plan.get('shrink_budget_s', 60))
        except BaseException as e:
          emit({'type': 'harness_error', 'index': i, 'seed': seed,
                'error': 'shrink: ' + repr(e),
                'tb': traceback.format_exc()[-4000:]})
          return 2
      rec['violations'].append(v)
    emit(rec)
    if rec['violations'] and os.environ.get('VSIM_STOP_ON_VIOLATION'):
      emit({'type': 'done'})
      return 0
  emit({'type': 'done'})
  return 0


if __name__ == '__main__':
  sys.exit(main())
