# executed by tools_manifest.py
PENDING.update({k: 'check not built yet in this commit (claimed in DESIGN.md section 4; will move to checks when its machinery lands)'
                for k in ['C11']})

check('C09', 'fault_enumeration',
      'For every sampled experiment configuration the complete single-crash space (after every mutating file-system effect x every '
      'partial-write prefix class) is executed against the real run_federated_experiment/checkpoint/serialization code on a simulated '
      'file system, plus seeded sequences of 2-4 crashes; each run is crash -> reboot (only files survive) -> re-run -> re-run again, with '
      'invariants after every effect (visible checkpoints load and equal the golden state of their round; <= keep retained, newest kept) '
      'and history checks (re-run completes, resumes after the newest checkpoint, bit-identical final state and .tsv, bounded number of rounds). '
      'Exhaustive per configuration, sampled across configurations: evidence, not proof.',
      'Trusts the SimFS model of tf.io.gfile (probed against tensorflow 2.21), the process-crash model (atomic rename/remove, no power loss), '
      'pickle, and that the simulated algorithm/evaluations are round-deterministic.',
      'deterministic crash simulation on a simulated file system (exhaustive crash-point sweep per configuration + seeded multi-crash sequences), golden-run oracle',
      'DESIGN.md 2.2, 4 (C09)')

check('C19', 'fault_enumeration',
      'For every sampled cache configuration (payload sizes around the 256 KiB transfer block and the 64 KiB copy buffer, compressed or '
      'not, stale .partial, pre-cached files) the complete single-fault space is executed against the real maybe_download / '
      'maybe_lzma_decompress / validate_file over real requests+urllib3+lzma+shutil: crash after every file-system effect x write-buffer '
      'prefix, ENOSPC/EIO on every effect, connection reset / premature EOF around every block boundary, HTTP errors, read errors on the '
      'compressed file; plus seeded sequences of 2-4 mixed interruptions. Invariant after every effect: each final cache name is absent or '
      'complete and correct; afterwards a fault-free call repairs the cache with at most one request per missing file, and a further call '
      'touches neither network nor disk. Exhaustive per configuration, sampled across configurations.',
      'Trusts the SimFS/SimNet models (socket body under the real urllib3 HTTPResponse; a truncation finding was re-confirmed over a real '
      'loopback socket), correct content-length from the origin, process-crash (not power-loss) semantics.',
      'deterministic fault-injection simulation of disk and network (exhaustive single-fault sweep per configuration + seeded fault sequences), reference content oracle',
      'DESIGN.md 2.2, 2.3, 4 (C19)')

check('C02', 'exploration',
      'Seeded exploration of two spaces against the real for_each_client module: (1) thread interleavings - real threads under a '
      'baton-passing scheduler whose every switch (at script ops and at every source line of for_each_client.py via sys.settrace) is '
      'a PRNG decision, with a per-thread reference variable as the oracle for set/with/exception-exit/invalid-backend/bind-time; '
      '(2) generated client programs (mixed dtypes, NaN/Inf on padding batches, aliasing hazards) x client collections x backends '
      'jit/debug/pmap(1..8 devices), run as generator tasks that the scheduler interleaves, closes early or whose batch iterables '
      'raise, with the shared input (NumPy, updated in place, or JAX) changed by the caller between calls of the same runner, compared '
      'result-by-result with the plain Python fold under jax.disable_jit and with bit-exact snapshots of all inputs.',
      'Sampling, not enumeration. Forced host CPU devices stand in for accelerators; pre-emption granularity is a source line.',
      'deterministic simulation: seeded thread scheduler (baton passing + settrace pre-emption) and seeded generator-task scheduler with fault injection; refinement against a sequential reference fold',
      'DESIGN.md 2.4, 4 (C02)')

check('C08', 'exploration',
      'Seeded histories of view operations (nested slices with adversarial bounds, subsets, preprocessor chains, point/bulk reads) with '
      'iterator tasks on the shared SQLite connection advanced in a PRNG-chosen interleaving and abandoned midway; after every operation '
      'every implementation (in-memory, SQLite over a real file written by the real builder, subset over both) of the new view and of its '
      'parent is compared bit-for-bit with a dict-based reference model through every access path. Sampling over datasets and histories.',
      'Trusts sqlite3 and the reference model (a Python dict plus predicate and function lists); iteration order across implementations is '
      'not compared, shuffled_clients on an empty view is not called.',
      'deterministic simulation: seeded history machine with an interleaving scheduler over lazy iterator tasks; operation-by-operation comparison with a reference model',
      'DESIGN.md 2.4, 4 (C08)')

check('C13', 'exploration',
      'Seeded histories over the real samplers: sample / set_round_num (forward, backward, repeated, huge) / restart with '
      'start_round_num=r / several sampler objects interleaved / noise on the global numpy and python RNGs between operations, on '
      'in-memory and SQLite datasets whose ids carry trailing zero bytes; plus streaming samplers restarted at round r over fresh, really '
      'shuffled seeded streams. Oracle: a round -> (ids, dataset contents, keys) table filled at first observation that every later '
      'observation must match, with the within-round clauses (no repeat, exact ids, cohort size, distinct keys, keys differ across rounds).',
      'Sampling over datasets, seeds and histories; restart is modelled as a fresh sampler object on the same data.',
      'deterministic simulation: seeded history machine with restarts and injected global-RNG interference; first-observation table as the reference model',
      'DESIGN.md 4 (C13)')

check('C01', 'exploration',
      'Seeded simulation of federated deployments against the real federated_averaging: per-round scheduler events (cohort, arrival '
      'order, backend jit/debug/pmap(1..8), client and whole-cohort dropout, returning clients) over multi-round histories with '
      'state carry-over, swarm over optimizers and batch hyper-parameters (including seed=None through an entropy seam, with the '
      'consumed batch stream recorded). Oracle: refinement against a reference model re-based every round - closed-form NumPy '
      'gradients, plain fold of optimizer steps, float64 weighted mean with the zero-weight convention, server optimizer step - plus '
      'diagnostics, zero-weight and order/backend-independence checks.',
      'Optimizer objects are trusted black boxes in the reference; float tolerances rtol 1e-4; (num_epochs=None, empty client) excluded.',
      'deterministic simulation of a federated deployment (seeded cohort/order/backend/dropout schedule) with step-by-step refinement against an executable reference model',
      'DESIGN.md 2.5, 4 (C01)')

check('C10', 'exploration',
      'Seeded history machine over a tree of states for every built-in algorithm and every compression aggregator: apply, retry of an '
      'earlier call later in the history (at-least-once delivery), branch from an already used state, and restart (real save_state onto '
      'the simulated file system, all algorithm/optimizer/aggregator objects rebuilt, load_state, history continued on both copies). '
      'Oracles: bit-identical retry (state and diagnostics), deep value snapshot of the argument state before/after every call (dict keys, '
      'list lengths, leaf bytes, readability), restored copy continued by fresh objects agrees with the original, and - at a quarter of '
      'the applies - the same call repeated by freshly built objects on a serialised copy agrees with the long-lived objects.',
      'Sampling over algorithms, hyper-parameters, populations and histories; batch seed fixed (seed=None is documented as re-randomising).',
      'deterministic simulation: seeded history machine with retry/branch/restart faults; purity and value-snapshot oracles',
      'DESIGN.md 2.5, 4 (C10)')

check('C12', 'exploration',
      'Seeded lock-step simulation: the algorithm in its degenerate configuration and real FedAvg (the executable reference model, pinned '
      'to the definition by C01) run over the same simulated deployment history - same cohorts, arrival orders, dropouts, keys, backend - '
      'each carrying its own state across 2-5 rounds; server parameters are compared after every round. FedProx(mu>0) and Mime(one step) '
      'are compared with the NumPy reference round instead (augmented-loss fold / one full-batch gradient step).',
      'Sampling over pairs, populations, optimizers, hparams and histories; rng-free loss for the APFL and HypCluster pairs; one open known finding (D9).',
      'deterministic simulation: lock-step refinement of two systems over one seeded deployment history with dropout faults',
      'DESIGN.md 2.5, 4 (C12)')

check('C17', 'exploration',
      'Seeded simulation of multi-round training histories (3-12 rounds) for AgnosticFedAvg, APFL, HypCluster, MimeLite and '
      'ignore_grads_haiku-inside-FedAvg with the fault kinds the invariants are about - domain blackouts, clusters without clients, '
      'client and whole-cohort dropout, returning clients, restart between rounds with rebuilt objects - and invariant monitors evaluated '
      'after every round (every optimizer step for ignore_grads): probability-vector and window model recomputed from the cohorts, '
      'coefficient box and client-table membership, argmin assignment and per-cluster reference update, clip bounds, bit-identical '
      'ignored leaves and a shadow base optimizer for the trainable sub-tree.',
      'Sampling over configurations and histories; rng-free loss for HypCluster; finite well-scaled inputs.',
      'deterministic simulation: seeded deployment histories with dropout/blackout/restart faults and per-round invariant monitors against reference models',
      'DESIGN.md 2.5, 4 (C17)')

check('C11', 'exploration',
      'Seeded simulation of aggregator histories with the simulator owning the random source: the initial key is drawn from the run '
      'seed and the CompressionState is threaded through 3-50 rounds (2000 for the unbiasedness histories in the thorough tier) with '
      'retry and pickle-restart faults; monitors every round: finiteness/structure, grid membership (uniform, TernGrad), distance of the '
      'aggregate to the exact weighted mean (step / s / rotated norm bound), pass-through of on-grid, constant and zero leaves, fresh '
      'randomness across clients (cohort [A] vs [A,A] from one state; large cohorts of 66-260 identical clients with zero weights selecting '
      'one position at a time, over three consecutive states) and across rounds (repeated cohort; key never repeats), running '
      'mean within a Hoeffding radius at delta 1e-12, and bit accounting by the documented formula.',
      'Statistical clauses are decided up to the stated radius; a bias below it (e.g. > vs >=) is invisible. Grid membership is not '
      'observable for the rotated/DRIVE quantizers without their internal keys.',
      'deterministic simulation of the random source along aggregator state histories (seeded key schedule, retry/restart faults) with per-round invariant monitors',
      'DESIGN.md 4 (C11)')
PENDING.clear()
