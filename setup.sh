#!/bin/sh
# Offline setup: nothing is fetched or compiled; verifies the interpreter can import jax and the
# working-tree fedjax under the stub tensorflow, and creates the output directories.
set -e
cd "$(dirname "$0")"
mkdir -p evidence replays
PYTHONPATH="$(pwd)" timeout 600 /venv/bin/python -c "
from vsim import boot
boot.boot()
import jax, fedjax
print('vsim setup ok: jax', jax.__version__, 'devices', len(jax.devices()), 'fedjax from', fedjax.__file__)
"
