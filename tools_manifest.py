#!/venv/bin/python
"""Regenerates MANIFEST.json from the table below (keeps it schema-valid)."""
import json
import os

HERE = os.path.dirname(os.path.abspath(__file__))

NA = {
    'C03': 'pure function of (dataset, batch size, bucket count): batch views hold no state between iterations, read no clock/file/random source, nothing can be interleaved with or injected into one iteration; only inputs/configurations are quantified (DESIGN.md 1.3, 4)',
    'C04': 'shuffle_repeat_batch is a pure function of (dataset, hparams, seed); each __iter__ builds its own RandomState and index buffer, so there is no shared state, schedule or fault; "for all seeds" is an input quantifier, not exploration of a random source',
    'C05': 'partition/order/padding invariance and the monoid laws are algebraic identities over the inputs of a single-threaded fold; no environment-controlled order, fault or persistent state',
    'C06': 'masked gradient/loss equalities are input-output identities of jitted pure functions; the accumulators live inside one for_each_client fold whose backend equivalence is C02',
    'C07': 'tree_sum/tree_mean/clip/mean_aggregator are pure functions of an input sequence; buffer donation is an aliasing hazard a single call exposes deterministically, with no schedule or fault dimension',
    'C14': 'each metric evaluate_example is a pure function of (example, prediction, constructor arguments); equality with a reference over the domain is input enumeration with no state, order or fault',
    'C15': 'padded_batch_client_datasets, buffered_shuffle* and RepeatableIterator are deterministic transformers of an input sequence with an explicit seed; the only "faults" are EOF positions = the quantified input lengths; no claim under interleaved consumers or source errors',
    'C16': 'msgpack round trip / rejection over dtypes, layouts and byte orders is a pure function of the value; the storage clauses are exercised (not claimed) inside C08 and C09/C10',
    'C18': 'transform and rotations are pure functions of (vector, block size, key); linearity, norm preservation and invertibility are algebraic identities with no state, order or fault',
    'C20': 'tokenisers, image standardisation, domain ids and label conventions are pure functions / constants; agreement between them is a static cross-check over inputs with nothing to schedule or fail',
}

PENDING = {}

CHECKS = {}


def check(pid, level, text, note, technique, design_ref):
  CHECKS[pid] = {
      'property_id': pid,
      'quick_cmd': f'./check {pid} --tier quick',
      'thorough_cmd': f'./check {pid} --tier thorough',
      'evidence_file': f'/verif/evidence/{pid}.json',
      'replay_cmd_template': f'./check {pid} --replay {{path}}',
      'engine': 'vsim',
      'level_claimed': {'category': level, 'text': text, 'design_ref': design_ref},
      'level_note': note,
      'technique': technique,
  }


exec(open(os.path.join(HERE, 'manifest_checks.py')).read())

manifest = {
    'version': 1,
    'setup_cmd': './setup.sh',
    'hooks': {
        'guard': 'FEDJAX_VERIF',
        'enable': 'no hook was needed: every seam is reached from outside (sys.modules[tensorflow] stub, module attributes time/os/open/lzma/np, requests HTTPAdapter.send, sys.settrace); the guard name is reserved and unused',
        'baseline_off_cmd': 'cd /repo && /venv/bin/python -m pytest -ra -q -p no:cacheprovider --timeout=900 --continue-on-collection-errors',
        'source_commits': [],
        'add_only': True,
    },
    'engines': [{
        'name': 'vsim', 'path': '/verif/vsim',
        'serves_properties': sorted(CHECKS),
        'kind_free_text': 'deterministic simulation with fault injection: seeded scheduler + SimFS (crash/EIO) + SimNet (HTTP faults under real requests/urllib3) + SimClock + baton-passing threads + generator-task scheduler, reference-model oracles, ddmin shrinking, replay files',
    }],
    'checks': [CHECKS[k] for k in sorted(CHECKS)],
    'not_applicable': [{'property_id': k, 'reason': v} for k, v in sorted({**NA, **PENDING}.items())
                       if k not in CHECKS],
    'notes': 'See DESIGN.md. Exit codes: 0 held, 1 VIOLATION (replay file written and re-confirmed in a fresh process), 2 HARNESS-ERROR (never a verdict). known_findings.json lists open findings and fixed defects.',
}
with open(os.path.join(HERE, 'MANIFEST.json'), 'w') as f:
  json.dump(manifest, f, indent=1)
print('checks:', sorted(CHECKS), 'n/a:', [x['property_id'] for x in manifest['not_applicable']])
