"""C09 - an interrupted experiment resumes to the uninterrupted result.

Real run_federated_experiment / checkpoint / serialization / Logger /
UniformGetClientSampler on SimFS + SimClock; crash simulation (DESIGN.md C09).
"""
import hashlib
import io
import pickle
import re

PROP = 'C09'
LEVEL = 'fault_enumeration'
RULE = ('A scenario is one experiment configuration (num_rounds, checkpoint_frequency, '
        'num_checkpoints_to_keep, eval_frequency, eval-fn counts, state size, junk files, '
        'algorithm) drawn from the run seed. mode=sweep: a fault-free golden run numbers the '
        'mutating file-system effects, then EVERY crash point (after each effect, and before the '
        'first) x every prefix of the open write buffer from the menu {none,one,half,allbut1,blk,all} '
        'is executed as crash -> reboot -> re-run to completion -> re-run once more on the finished '
        'directory. mode=seq: 2-4 successive crashes at PRNG-chosen effects, then a fault-free run. '
        'evaluations = crash-runs + golden runs. A case is distinct by (config class, effect kind at '
        'the crash, prefix class, phase); non-trivial if the crash fell at or after the first '
        'checkpoint effect (so the resumed run actually reads durable state).')
DISTINCT_MEASURE = ('distinct (config-class, effect-kind, prefix, phase) tuples; states = '
                    '(checkpoint rounds present, torn flag, phase, crashes so far)')
PROBES = ('crash_inside_checkpoint_write', 'crash_between_save_and_delete',
          'crash_during_final_eval', 'restart_with_newest_eq_last_round',
          'restart_twice_without_progress', 'keep_gt_1_resume', 'zero_rounds', 'soft_interrupt',
          'junk_files_present', 'real_fedavg_run', 'multi_write_checkpoint')
ASSUMPTIONS = [
    'process-crash model: rename/remove are atomic and durable at once; power loss (rename '
    'reordered before data) is not modelled',
    'tf.io.gfile / tf.summary are a stub on SimFS whose semantics were probed against '
    'tensorflow 2.21 (file appears at first write, data visible in pieces, full at flush/close)',
    'EIO/ENOSPC with the process continuing is not injected into the training loop (the code does '
    'not claim to survive it)',
    'the algorithm and the evaluation functions are round-deterministic (as the property requires)',
]
REAL_VS_STUB = {
    'real': ['fedjax.training.federated_experiment.run_federated_experiment',
             'fedjax.training.checkpoint', 'fedjax.core.serialization.save_state/load_state',
             'fedjax.training.logging.Logger', 'fedjax.core.client_samplers.UniformGetClientSampler',
             'fedjax.InMemoryFederatedData', 'pickle', 'fedjax.algorithms.fed_avg (10% of scenarios)'],
    'stub': ['tensorflow (tf.io.gfile, tf.summary) -> vsim.simfs', 'time.time -> vsim SimClock',
             'process crash -> SimCrash(BaseException) + frozen file system + rebuilt objects'],
}
INCIDENTAL = ['client sampling (C13)', 'pickle round trip of server state (C16 clause 3)']


def _simplify_config(sc):
  """Candidate simpler scenarios (config reductions); crash points are re-derived."""
  c = sc['config']
  def with_cfg(**kw):
    n = dict(sc)
    n['config'] = dict(c, **kw)
    n.pop('only_points', None)
    return n
  if c['algo'] != 'count':
    yield with_cfg(algo='count')
  if c['junk']:
    yield with_cfg(junk=[])
  if c['pad']:
    yield with_cfg(pad=0)
  if c['n_periodic']:
    yield with_cfg(n_periodic=0)
  if c['eval_freq']:
    yield with_cfg(eval_freq=0)
  if c['num_rounds'] > 0:
    yield with_cfg(num_rounds=c['num_rounds'] - 1)
  if c['n_final'] > 0:
    yield with_cfg(n_final=c['n_final'] - 1)
  if c['keep'] > 1:
    yield with_cfg(keep=c['keep'] - 1)
  if c['ckpt_freq'] > 1:
    yield with_cfg(ckpt_freq=1)
  if c['n_clients'] > 2:
    yield with_cfg(n_clients=2, cohort=1)
  if sc.get('second_call', True):
    n = dict(sc)
    n['second_call'] = False
    yield n


def narrow(sc, violation):
  """Sweep scenario -> the single crash point that produced the violation."""
  pt = (violation.get('detail') or {}).get('point')
  if sc.get('mode') != 'sweep' or pt is None:
    return None
  n = dict(sc)
  n['only_points'] = [pt]
  return n


SHRINK = {'list_keys': ('faults',), 'simplifiers': (_simplify_config,)}

ROOT = '/exp'
_CKPT_RE = re.compile(r'^/exp/checkpoint_[0-9]{8}$')


def plan(tier):
  if tier == 'quick':
    return {'runs': 96, 'budget_s': 420, 'per_run_timeout_s': 240,
            'selftest_runs': 8, 'selftest_runs_full': 48, 'shrink_budget_s': 30}
  return {'runs': 8000, 'budget_s': 1800, 'per_run_timeout_s': 600,
          'selftest_runs': 16, 'selftest_runs_full': 96, 'shrink_budget_s': 120}


# ----------------------------------------------------------------- generate
def generate(seed, tier):
  from vsim.rng import Rng
  r = Rng(seed).sub('c09')
  g = r.sub('cfg')
  num_rounds = g.weighted([(0, 1), (1, 2), (2, 3), (3, 4), (4, 4), (5, 3), (6, 2), (8, 1), (11, 1), (12, 1)])
  cfg = {
      'num_rounds': num_rounds,
      'ckpt_freq': g.weighted([(0, 1), (1, 4), (2, 4), (3, 2), (4, 1)]),
      'keep': g.weighted([(1, 4), (2, 3), (3, 2)]),
      'eval_freq': g.weighted([(0, 2), (1, 2), (2, 2), (3, 1)]),
      'n_final': g.weighted([(0, 1), (1, 3), (2, 2)]),
      'n_periodic': g.weighted([(0, 2), (1, 2), (2, 2)]),
      'pad': g.weighted([(0, 3), (700, 2), (5000, 3), (70000, 1), (140000, 1)]),
      'n_clients': g.randint(2, 9),
      'sampler_seed': g.randint(0, 2**20),
      'algo': 'fedavg' if g.chance(0.10) else 'count',
      'junk': [],
      'empty_final': g.chance(0.15),
  }
  cfg['cohort'] = g.randint(1, cfg['n_clients'])
  if g.chance(0.35):
    junk_names = ['checkpoint_123', 'checkpoint_00000002.bak', 'checkpoint_000000010',
                  'checkpoint_0000000a', 'checkpoint_', 'checkpoint_00000001.tmp',
                  'checkpoint_99999999.partial']
    cfg['junk'] = sorted(g.sample(junk_names, g.randint(1, 3)))
  mode = 'sweep' if g.chance(0.6) else 'seq'
  sc = {'config': cfg, 'mode': mode, 'faults': [], 'second_call': True}
  if mode == 'seq':
    f = r.sub('faults')
    n = f.randint(2, 4)
    for _ in range(n):
      sc['faults'].append({
          'kind': 'crash',
          # resolved against the incarnation's own effect count at run time
          'frac': f.random(), 'bias': f.choice(['any', 'ckpt', 'ckpt', 'final', 'late']),
          'when': f.choice(['after', 'after', 'before']),
          'prefix': f.choice(['none', 'one', 'half', 'allbut1', 'blk', 'all'])})
  return sc


# ------------------------------------------------------------------ system
class _Env:
  """Everything a 'process' rebuilds from scratch at boot."""


def _fp(x):
  from vsim.trace import tree_fingerprint
  return tree_fingerprint(x)


def _population(cfg):
  import numpy as np
  from vsim.rng import Rng
  g = Rng(cfg['sampler_seed']).sub('pop')
  data = {}
  for i in range(cfg['n_clients']):
    cid = b'c%02d' % i + (b'\x00' if i % 3 == 0 else b'')
    n = g.randint(1, 5)
    x = np.array([[g.uniform(-1, 1) for _ in range(2)] for _ in range(n)], np.float32)
    y = (x @ np.array([0.5, -1.0], np.float32) + 0.1).astype(np.float32)
    data[cid] = {'x': x, 'y': y}
  return data


def _count_algorithm(cfg):
  """Round-deterministic toy algorithm whose state depends on exact ids, sizes, keys, order of rounds."""
  import numpy as np
  import fedjax

  def init():
    return {'h': np.zeros(4, np.uint64), 'round': np.int32(0),
            'pad': np.arange(cfg['pad'] // 8, dtype=np.float64),
            'params': {'w': np.zeros(3, np.float32)}}

  def apply(state, clients):
    m = hashlib.sha256(state['h'].tobytes())
    diag = {}
    for cid, ds, key in clients:
      m.update(cid)
      m.update(str(len(ds)).encode())
      m.update(np.asarray(key).tobytes())
      diag[cid] = len(ds)
    h = np.frombuffer(m.digest(), np.uint64).copy()
    new = {'h': h, 'round': np.int32(state['round'] + 1),
           'pad': state['pad'] * np.float64(1.0000001) + np.float64(h[0] % 7),
           'params': {'w': state['params']['w'] + np.float32(len(clients))}}
    return new, diag

  return fedjax.FederatedAlgorithm(init, apply)


_FEDAVG_CACHE = {}


def _fedavg_algorithm(cfg):
  import fedjax
  import jax.numpy as jnp
  import numpy as np
  if 'alg' not in _FEDAVG_CACHE or _FEDAVG_CACHE.get('fresh_every_time'):
    def loss(params, batch, rng):
      pred = batch['x'] @ params['w'] + params['b']
      return jnp.mean((pred - batch['y'])**2)
    import jax
    grad_fn = jax.jit(jax.grad(loss))
    _FEDAVG_CACHE['alg'] = fedjax.algorithms.fed_avg.federated_averaging(
        grad_fn, fedjax.optimizers.sgd(0.1), fedjax.optimizers.adam(0.05),
        fedjax.ShuffleRepeatBatchHParams(batch_size=2, num_epochs=1, seed=3))
  alg = _FEDAVG_CACHE['alg']

  def init():
    return alg.init({'w': jnp.zeros(2), 'b': jnp.zeros(())})
  return fedjax.FederatedAlgorithm(init, alg.apply)


class _Recorder:
  def __init__(self):
    self.sampled_rounds = []   # rounds the training sampler was asked to sample
    self.applies = 0
    self.states_after = {}     # round -> fingerprint
    self.markers = 0


def _build(cfg, rec, fs, on_marker):
  """Builds the per-process objects: algorithm, sampler, eval maps, config."""
  import fedjax
  from fedjax.training import federated_experiment as fe
  import numpy as np
  fd = fedjax.InMemoryFederatedData(_population(cfg))
  base_alg = _fedavg_algorithm(cfg) if cfg['algo'] == 'fedavg' else _count_algorithm(cfg)
  sampler = fedjax.client_samplers.UniformGetClientSampler(
      fd, cfg['cohort'], cfg['sampler_seed'], start_round_num=0)

  class SamplerProxy(fedjax.client_samplers.ClientSampler):
    def __init__(self):
      self.round = 0   # the real sampler's start_round_num

    def set_round_num(self, r):
      self.round = r
      sampler.set_round_num(r)

    def sample(self):
      on_marker('sample')
      rec.sampled_rounds.append(self.round)
      out = sampler.sample()
      if self.round is not None:
        self.round += 1
      return out

  proxy = SamplerProxy()

  def apply(state, clients):
    on_marker('apply')
    rec.applies += 1
    new, diag = base_alg.apply(state, clients)
    r = rec.sampled_rounds[-1] if rec.sampled_rounds else None
    rec.states_after[r] = _fp(new)
    return new, diag

  alg = fedjax.FederatedAlgorithm(base_alg.init, apply)

  def state_scalar(state):
    leaves = [np.asarray(l) for l in __import__('jax').tree_util.tree_leaves(state)]
    return hashlib.sha256(b''.join(np.ascontiguousarray(l).tobytes() for l in leaves)).hexdigest()[:12]

  class Final(fe.EvaluationFn):
    def __init__(self, k):
      self.k = k

    def __call__(self, state, round_num):
      on_marker('final_eval')
      return {'state': state_scalar(state), 'round': round_num, 'k': self.k}

  eval_sampler = fedjax.client_samplers.UniformGetClientSampler(
      fd, 1, cfg['sampler_seed'] + 1, start_round_num=0)

  class Periodic(fe.EvaluationFn):
    def __call__(self, state, round_num):
      on_marker('periodic_eval')
      eval_sampler.set_round_num(round_num)
      c = eval_sampler.sample()
      return {'n': np.float32(len(c[0][1])), 'r': np.float32(round_num),
              'vec': np.arange(3, dtype=np.float32)}

  class PeriodicTrain(fe.TrainClientsEvaluationFn):
    def __call__(self, state, round_num, train_clients):
      on_marker('periodic_eval')
      return {'k': np.float32(len(train_clients))}

  final_map = {f'final{k}': Final(k) for k in range(cfg['n_final'])}
  if cfg.get('empty_final'):
    class NoMetrics(fe.EvaluationFn):
      def __call__(self, state, round_num):
        on_marker('final_eval')
        return {}
    final_map['nometrics'] = NoMetrics()
  periodic = {}
  if cfg['n_periodic'] >= 1:
    periodic['p_eval'] = Periodic()
  if cfg['n_periodic'] >= 2:
    periodic['p_train'] = PeriodicTrain()
  config = fe.FederatedExperimentConfig(
      root_dir=ROOT, num_rounds=cfg['num_rounds'], checkpoint_frequency=cfg['ckpt_freq'],
      num_checkpoints_to_keep=cfg['keep'], eval_frequency=cfg['eval_freq'])
  return alg, proxy, config, periodic, final_map


def _ckpt_rounds(fs):
  return sorted(int(p[-8:]) for p in fs.files if _CKPT_RE.match(p))


class _Checker:
  """Invariant monitors evaluated after every file-system effect / marker."""

  def __init__(self, cfg, golden_states, viols):
    self.cfg, self.golden, self.viols = cfg, golden_states, viols
    self._cache = {}
    self.saved_since_marker = None
    self.sigs = set()

  def add(self, clause, signature, message):
    if signature in self.sigs:
      return
    self.sigs.add(signature)
    self.viols.append({'clause': clause, 'signature': signature, 'message': message})

  def load_ok(self, path, data):
    key = (path, hashlib.sha256(data).digest())
    if key not in self._cache:
      try:
        st = pickle.load(io.BytesIO(data))
        self._cache[key] = ('ok', _fp(st))
      except BaseException as e:  # truncated pickle etc.
        self._cache[key] = ('bad', type(e).__name__)
    return self._cache[key]

  def on_effect(self, fs, idx, kind, path):
    # I1: every visible checkpoint_<8 digits> is complete, loadable and the golden state of its round
    if 'checkpoint_' not in path:
      return
    for p, data in fs.files.items():
      if not _CKPT_RE.match(p):
        continue
      status, what = self.load_ok(p, data)
      r = int(p[-8:])
      if status == 'bad':
        self.add('I1', 'I1:incomplete-checkpoint-visible-under-final-name',
                 f'{p} visible with {len(data)} bytes that do not load ({what}) after effect {idx}:{kind}')
      elif self.golden is not None and self.golden.get(r) is not None and what != self.golden[r]:
        self.add('I1', 'I1:checkpoint-content-differs-from-golden-round-state',
                 f'{p} holds a state different from the uninterrupted run after round {r}')
    if _CKPT_RE.match(path) and kind in ('close', 'rename'):
      self.saved_since_marker = int(path[-8:])

  def on_marker(self, fs, what):
    # I2: after a save completed, at most `keep` checkpoints and the one just saved is the newest of them
    if self.saved_since_marker is None:
      return
    rounds = _ckpt_rounds(fs)
    saved = self.saved_since_marker
    self.saved_since_marker = None
    if len(rounds) > self.cfg['keep']:
      self.add('I2', 'I2:more-than-keep-checkpoints-after-save',
               f'after saving round {saved}: checkpoints {rounds}, keep={self.cfg["keep"]}')
    if saved not in rounds or max(rounds) != saved:
      self.add('I2', 'I2:newest-checkpoint-not-retained-after-save',
               f'after saving round {saved}: checkpoints {rounds}')


class SimInterrupt(BaseException):
  """Soft crash: an interrupt (KeyboardInterrupt / SIGTERM handler / failing step) raised inside the loop; handlers and
  `finally` blocks of the dying process DO run and the file system is still usable while the exception unwinds."""


def _run_process(cfg, fs, plan_, golden_states, viols, counters, trace, incarnation, interrupt_at=None):
  """One process incarnation. Returns dict(status, state_fp, rec, effects)."""
  from vsim import boot, simfs
  from fedjax.training import federated_experiment as fe
  fe.time = boot.TIME_SHIM
  boot.CURRENT.fs = fs
  fs.reboot()
  fs.set_plan(plan_)
  rec = _Recorder()
  chk = _Checker(cfg, golden_states, viols)
  fs.observer = chk.on_effect

  def on_marker(what):
    rec.markers += 1
    chk.on_marker(fs, what)
    if interrupt_at is not None and rec.markers - 1 == interrupt_at:
      raise SimInterrupt(f'interrupt before marker#{interrupt_at}:{what}')

  newest_before = max(_ckpt_rounds(fs), default=None)
  alg, sampler, config, periodic, final_map = _build(cfg, rec, fs, on_marker)
  res = {'rec': rec, 'newest_before': newest_before}
  try:
    state = fe.run_federated_experiment(alg, alg.init(), sampler, config, periodic, final_map)
    chk.on_marker(fs, 'return')
    res.update(status='done', state_fp=_fp(state))
  except simfs.SimCrash as e:
    res.update(status='crashed', where=str(e))
  except SimInterrupt as e:
    res.update(status='crashed', where=str(e), soft=True)
  except Exception as e:  # noqa - H1: anything else is the system failing
    import traceback
    tb = traceback.extract_tb(e.__traceback__)
    site = next((f'{f.filename.split("/fedjax/")[-1]}:{f.name}' for f in reversed(tb)
                 if '/fedjax/' in f.filename), '?')
    res.update(status='error', error=type(e).__name__, site=site, msg=str(e)[:300])
  finally:
    fs.observer = None
  res['effects'] = list(fs.effect_log)
  res['fired'] = list(fs.fired)
  trace.ev('proc', inc=incarnation, status=res['status'], where=res.get('where'),
           err=res.get('error'), n_eff=len(res['effects']), sampled=rec.sampled_rounds,
           files=sorted((p, hashlib.sha256(d).hexdigest()[:8]) for p, d in fs.files.items()))
  return res


def _tsvs(fs):
  return {p: d for p, d in fs.files.items() if p.endswith('.tsv')}


def _fresh_fs(cfg):
  from vsim import boot
  fs, clock = boot.new_world()
  fs.dirs.add(ROOT)
  for j in cfg['junk']:
    fs.files[f'{ROOT}/{j}'] = b'\x80\x04junk-not-a-checkpoint'
  return fs


def _phase(effects, k, cfg):
  """Coarse phase of the golden effect index k."""
  if k < 0 or k >= len(effects):
    return 'start' if k < 0 else 'done'
  kind, path = effects[k][1], effects[k][2]
  if path.endswith('.tsv'):
    return 'final-eval'
  if 'checkpoint_' in path:
    return 'deleting' if kind == 'remove' else 'saving'
  return 'loop'


def _check_resume(cfg, res, golden, viols_add, crashes_so_far, must_finish):
  """History checks H1..H4 on one post-reboot incarnation."""
  rec = res['rec']
  if res['status'] == 'error':
    viols_add('H1', f"H1:rerun-raises:{res['error']}@{res['site']}",
              f"re-run after {crashes_so_far} crash(es) raised {res['error']}: {res['msg']} "
              f"(newest checkpoint before: {res['newest_before']})")
    return
  nb = res['newest_before']
  expect_first = (nb + 1) if nb is not None else 1
  if rec.sampled_rounds:
    if rec.sampled_rounds[0] != expect_first:
      viols_add('H2', 'H2:resume-does-not-start-after-newest-checkpoint',
                f'newest checkpoint {nb}, first sampled round {rec.sampled_rounds[0]}')
    want = list(range(rec.sampled_rounds[0], rec.sampled_rounds[0] + len(rec.sampled_rounds)))
    if rec.sampled_rounds != want:
      viols_add('H2', 'H2:sampled-rounds-not-consecutive', f'{rec.sampled_rounds}')
  if res['status'] == 'done':
    if res['state_fp'] != golden['state_fp']:
      viols_add('H3', 'H3:final-state-differs-from-uninterrupted-run',
                f"resumed from {nb}: final state {res['state_fp']} != golden {golden['state_fp']}")
    n_expected = max(0, cfg['num_rounds'] - (nb or 0))
    if rec.applies != n_expected:
      viols_add('H4', 'H4:wrong-number-of-rounds-after-resume',
                f'resumed from {nb}: {rec.applies} rounds applied, expected {n_expected}')


def execute(sc):
  from vsim import boot
  from vsim.trace import Trace, Counters
  cfg = sc['config']
  # a rebooted process rebuilds every object: in seq mode the real FedAvg algorithm is rebuilt for every incarnation;
  # in sweep mode (hundreds of incarnations) it is rebuilt once per scenario to keep compilation affordable
  _FEDAVG_CACHE.clear()
  _FEDAVG_CACHE['fresh_every_time'] = sc['mode'] == 'seq'
  boot.reset_sim_seconds()
  trace = Trace(keep=False)
  viols, probes, faults = [], Counters(), Counters()
  distinct, nontrivial, states = set(), set(), set()
  sigs = set()

  def viols_add(clause, signature, message):
    if signature not in sigs:
      sigs.add(signature)
      viols.append({'clause': clause, 'signature': signature, 'message': message})

  cfg_class = (min(cfg['num_rounds'], 3), cfg['ckpt_freq'], cfg['keep'], min(cfg['eval_freq'], 2),
               min(cfg['n_final'], 1), cfg['pad'] > 4096, bool(cfg['junk']), cfg['algo'])
  if cfg['num_rounds'] == 0:
    probes.inc('zero_rounds')
  if cfg['junk']:
    probes.inc('junk_files_present')
  if cfg['algo'] == 'fedavg':
    probes.inc('real_fedavg_run')

  # ---- golden run ------------------------------------------------------
  fs = _fresh_fs(cfg)
  gv = []
  g = _run_process(cfg, fs, {}, None, gv, None, trace, 0)
  evaluations = 1
  for v in gv:
    viols_add(v['clause'], 'golden:' + v['signature'], 'in the fault-free run: ' + v['message'])
  if g['status'] != 'done':
    viols_add('H1', f"H1:fault-free-run-raises:{g.get('error')}@{g.get('site')}",
              f"fault-free run did not complete: {g.get('error')} {g.get('msg')}")
    return _outcome(trace, viols, probes, faults, distinct, nontrivial, states, evaluations, 0, sc)
  golden = {'state_fp': g['state_fp'], 'tsv': _tsvs(fs), 'effects': g['effects'],
            'states': dict(g['rec'].states_after)}
  golden_states = {r: fp for r, fp in golden['states'].items() if r is not None}
  n_eff = len(golden['effects'])
  ck_writes = [e for e in golden['effects'] if e[1] == 'write' and 'checkpoint_' in e[2]]
  if len(ck_writes) > max(1, len([e for e in golden['effects'] if e[1] == 'create' and 'checkpoint_' in e[2]])):
    probes.inc('multi_write_checkpoint')
  sim_rounds = g['rec'].applies

  def finish(fs, crashes, label):
    """Fault-free re-runs until completion (H1..H4), then one more call on the finished dir."""
    nonlocal evaluations, sim_rounds
    res = _run_process(cfg, fs, {}, golden_states, _sink(viols_add), None, trace, crashes + 1)
    evaluations += 1
    sim_rounds += res['rec'].applies
    nb = res['newest_before']
    if nb is not None and nb >= cfg['num_rounds']:
      probes.inc('restart_with_newest_eq_last_round')
    if nb is not None and cfg['keep'] > 1:
      probes.inc('keep_gt_1_resume')
    _check_resume(cfg, res, golden, viols_add, crashes, True)
    if res['status'] == 'done':
      if _tsvs(fs) != golden['tsv']:
        viols_add('H3', 'H3:final-evaluation-output-differs-from-uninterrupted-run',
                  f'{label}: tsv files {sorted(_tsvs(fs))} differ from golden {sorted(golden["tsv"])}')
      if sc.get('second_call', True):
        res2 = _run_process(cfg, fs, {}, golden_states, _sink(viols_add), None, trace, crashes + 2)
        evaluations += 1
        nb2 = res2['newest_before']
        if nb2 is not None and nb2 >= cfg['num_rounds']:
          probes.inc('restart_with_newest_eq_last_round')
        _check_resume(cfg, res2, golden, viols_add, crashes, True)
        if res2['status'] == 'done' and _tsvs(fs) != golden['tsv']:
          viols_add('H3', 'H3:final-evaluation-output-differs-after-second-call',
                    f'{label}: tsv differs after calling again on the finished directory')

  def note_crash(res, k_golden, prefix):
    fired = res['fired']
    for f in fired:
      faults.inc('crash_' + f.get('when', 'after'))
    eff = golden['effects']
    kind = eff[k_golden][1] if 0 <= k_golden < len(eff) else 'none'
    path = eff[k_golden][2] if 0 <= k_golden < len(eff) else ''
    ph = _phase(eff, k_golden, cfg)
    if 'checkpoint_' in path and kind in ('create', 'write') :
      probes.inc('crash_inside_checkpoint_write')
    if ph == 'final-eval':
      probes.inc('crash_during_final_eval')
    if ph == 'deleting' or ('checkpoint_' in path and kind in ('close', 'rename')
                            and k_golden + 1 < len(eff) and eff[k_golden + 1][1] == 'remove'):
      probes.inc('crash_between_save_and_delete')
    key = hashlib.sha256(repr((cfg_class, kind, prefix, ph)).encode()).hexdigest()[:12]
    distinct.add(key)
    first_ck = next((i for i, e in enumerate(eff) if 'checkpoint_' in e[2]), None)
    if first_ck is not None and k_golden >= first_ck:
      nontrivial.add(key)

  def abstract_state(fs, phase, crashes):
    torn = any(_CKPT_RE.match(p) and _try_load(d) is None for p, d in fs.files.items())
    states.add(hashlib.sha256(repr((tuple(_ckpt_rounds(fs)), torn, phase, crashes)).encode()).hexdigest()[:12])

  if sc['mode'] == 'sweep':
    points = [(-1, 'before', 'all')]
    for k, e in enumerate(golden['effects']):
      buffered = e[4]
      menu = ['all'] if buffered == 0 else ['none', 'one', 'half', 'allbut1', 'blk', 'all']
      # de-duplicate prefixes that give the same length
      seen = set()
      for pf in menu:
        from vsim.simfs import _prefix_len
        n = _prefix_len(buffered, pf)
        if n in seen:
          continue
        seen.add(n)
        points.append((k, 'after', pf))
    only = sc.get('only_points')
    for (k, when, pf) in points:
      if only is not None and [k, when, pf] not in only:
        continue
      fs = _fresh_fs(cfg)
      planx = {max(k, 0): {'kind': 'crash', 'when': 'before' if k < 0 else 'after', 'prefix': pf}}
      res = _run_process(cfg, fs, planx, golden_states, _sink(viols_add, tag=(k, when, pf)), None, trace, 0)
      evaluations += 1
      sim_rounds += res['rec'].applies
      if res['status'] == 'error':
        viols_add('H1', f"H1:first-run-raises:{res['error']}@{res['site']}", res['msg'])
        continue
      if res['status'] == 'crashed':
        note_crash(res, k, pf)
        abstract_state(fs, _phase(golden['effects'], k, cfg), 1)
      before = len(viols)
      finish(fs, 1, f'crash {when} effect {k} ({golden["effects"][max(k,0)][1:3] if n_eff else None}) prefix={pf}')
      if len(viols) > before:
        for v in viols[before:]:
          v.setdefault('detail', {'point': [k, when, pf]})
    # soft crashes: an interrupt raised at every step boundary of the loop (before each sample / apply / evaluation
    # call); handlers of the dying process run with a live file system, then the process ends
    if only is None or any(p_[1] == 'interrupt' for p_ in only):
      for m in range(g['rec'].markers):
        if only is not None and [m, 'interrupt', 'all'] not in only:
          continue
        fs = _fresh_fs(cfg)
        res = _run_process(cfg, fs, {}, golden_states, _sink(viols_add), None, trace, 0, interrupt_at=m)
        evaluations += 1
        sim_rounds += res['rec'].applies
        if res['status'] == 'error':
          viols_add('H1', f"H1:first-run-raises:{res['error']}@{res['site']}", res['msg'])
          continue
        if res['status'] == 'crashed':
          faults.inc('interrupt_at_step_boundary')
          probes.inc('soft_interrupt')
          key = hashlib.sha256(repr((cfg_class, 'interrupt', m % 4)).encode()).hexdigest()[:12]
          distinct.add(key)
          if _ckpt_rounds(fs):
            nontrivial.add(key)
        before = len(viols)
        finish(fs, 1, f'interrupt before step marker {m}')
        for v in viols[before:]:
          v.setdefault('detail', {'point': [m, 'interrupt', 'all']})
  else:
    fs = _fresh_fs(cfg)
    crashes = 0
    prev_ckpts = None
    from vsim.rng import Rng
    for fi, f in enumerate(sc['faults']):
      # resolve the crash position against a dry effect count of what this incarnation would do
      k = _resolve(f, cfg, fs, golden, trace)
      if k is None:
        continue
      planx = {k: {'kind': 'crash', 'when': f['when'], 'prefix': f['prefix']}}
      res = _run_process(cfg, fs, planx, golden_states, _sink(viols_add), None, trace, crashes)
      evaluations += 1
      sim_rounds += res['rec'].applies
      if res['status'] == 'error':
        _check_resume(cfg, res, golden, viols_add, crashes, False)
        break
      if res['status'] == 'done':
        _check_resume(cfg, res, golden, viols_add, crashes, False)
        continue
      crashes += 1
      if crashes > 1:
        _check_resume(cfg, res, golden, viols_add, crashes - 1, False)
      faults.inc('crash_' + f['when'])
      eff = res['effects']
      last = eff[-1] if eff else (0, 'none', '', 0, 0)
      ph = 'final-eval' if last[2].endswith('.tsv') else ('saving' if 'checkpoint_' in last[2] else 'loop')
      if 'checkpoint_' in last[2] and last[1] in ('create', 'write'):
        probes.inc('crash_inside_checkpoint_write')
      if ph == 'final-eval':
        probes.inc('crash_during_final_eval')
      if last[1] == 'remove' or ('checkpoint_' in last[2] and last[1] in ('close', 'rename')):
        probes.inc('crash_between_save_and_delete')
      cur = tuple(_ckpt_rounds(fs))
      if prev_ckpts is not None and cur == prev_ckpts:
        probes.inc('restart_twice_without_progress')
      prev_ckpts = cur
      key = hashlib.sha256(repr((cfg_class, last[1], f['prefix'], ph, crashes)).encode()).hexdigest()[:12]
      distinct.add(key)
      if cur:
        nontrivial.add(key)
      abstract_state(fs, ph, crashes)
    finish(fs, crashes, f'{crashes} crashes')

  return _outcome(trace, viols, probes, faults, distinct, nontrivial, states, evaluations,
                  sim_rounds, sc, golden)


def _try_load(data):
  try:
    return pickle.load(io.BytesIO(data))
  except BaseException:
    return None


def _sink(viols_add, tag=None):
  class L(list):
    def append(self, v):
      viols_add(v['clause'], v['signature'], v['message'])
  return L()


def _resolve(f, cfg, fs, golden, trace):
  """Turns a relative crash spec into an effect index of the next incarnation.

  The incarnation is first dry-run on a copy of the file system to learn its
  effect list (deterministic), then the index is picked by bias + frac.
  """
  import copy
  from vsim.trace import Trace
  fs2 = copy.deepcopy(fs)
  fs2.observer = None
  res = _run_process(cfg, fs2, {}, None, [], None, Trace(keep=False), -1)
  eff = res['effects']
  if not eff:
    return None
  idxs = list(range(len(eff)))
  if f['bias'] == 'ckpt':
    c = [i for i in idxs if 'checkpoint_' in eff[i][2]]
    idxs = c or idxs
  elif f['bias'] == 'final':
    c = [i for i in idxs if eff[i][2].endswith('.tsv')]
    idxs = c or idxs[-3:]
  elif f['bias'] == 'late':
    idxs = idxs[len(idxs) * 2 // 3:]
  return idxs[min(len(idxs) - 1, int(f['frac'] * len(idxs)))]


def _outcome(trace, viols, probes, faults, distinct, nontrivial, states, evaluations, sim_rounds,
             sc, golden=None):
  from vsim import boot
  sample = None
  if golden is not None:
    sample = {'config': sc['config'], 'mode': sc['mode'],
              'golden_effects': [f'{e[1]}:{e[2].replace(ROOT + "/", "")}:{e[3]}' for e in golden['effects']][:40],
              'crash_runs': evaluations - 1}
  return {'digest': trace.digest(), 'evaluations': evaluations, 'violations': viols,
          'probes': dict(probes), 'faults': dict(faults), 'distinct': sorted(distinct),
          'nontrivial': sorted(nontrivial), 'states': sorted(states), 'sim_rounds': sim_rounds,
          'sim_seconds': float(boot.sim_seconds()), 'sample': sample}
