"""C17 - algorithm-specific invariants hold along every training history.

FedSim histories of 3-12 rounds per algorithm with the fault kinds that make the
invariants bite; invariant monitors after every round (DESIGN.md C17).
"""
import hashlib

PROP = 'C17'
LEVEL = 'exploration'
RULE = ('A scenario picks one monitored system - AgnosticFedAvg (1-3 domains, window 1-4), APFL, HypCluster (1-4 clusters), '
        'MimeLite with a clip norm from "never" to "always", or ignore_grads_haiku as client optimizer inside FedAvg on the debug '
        'backend - with drawn optimizers/hparams/backend and a history of 3-12 rounds: cohorts with returning clients, per-client '
        'and whole-cohort dropout, domain blackouts (all examples of a domain removed from a round), and restart between rounds '
        '(state pickled, algorithm objects rebuilt). After every round the invariant monitors run: agnostic - weights finite, '
        '>= 0, sum 1, window length constant and equal to the last W per-domain example counts recomputed from the cohorts; APFL - '
        'all interpolation coefficients in [0,1], client table keys = clients that participated; HypCluster - reported cluster has '
        'minimal reference average loss, each cluster updated from its own clients only (reference fold), clusters without '
        'clients bit-identical; MimeLite - clipped norms and server step within the bound; ignore_grads - ignored leaves '
        'bit-identical at every step and the rest equal to the base optimizer on the trainable sub-tree. evaluations = rounds '
        'monitored. distinct = (system, config class, fault-kind set per round); non-trivial = the history contains the fault '
        'kind that the invariant is about (domain without examples / empty cluster / clip triggered / returning client / frozen '
        'leaf with non-zero gradient).')
DISTINCT_MEASURE = 'distinct (system, config class, per-round fault-kind sets) hashes'
PROBES = ('domain_without_examples', 'window_fully_rolled_over', 'empty_cluster_round', 'all_clients_one_cluster',
          'clip_triggered', 'clip_not_triggered', 'coefficient_hit_bound_0_or_1', 'returning_client', 'restart_between_rounds',
          'domain_absent_from_whole_window', 'frozen_leaf_nonzero_grad', 'whole_cohort_dropout')
OPTIONAL_PROBES = ('excluded_diverged_training_round', 'apfl_eval_between_rounds', 'apfl_eval_of_client_that_never_trained')
ASSUMPTIONS = [
    'ignore_grads_haiku is given haiku immutable-dict params (its documented input); with a plain dict it returns another container type and FedAvg rejects the mismatch - a container-type matter outside the stated property',
    'finite inputs; domain learning rate x loss stays far below float32 exp overflow (lr <= 1, losses < 10)',
    'client_delta_clip_norm > 0 and domain_window_size >= 1 (nothing defines the other cases)',
    'HypCluster monitors use the rng-free loss (the algorithm splits client keys internally)',
    'a cluster whose clients hold no example at all is not judged (the property speaks of clusters without clients)',
]
REAL_VS_STUB = {
    'real': ['fedjax.algorithms agnostic_fed_avg, apfl, hyp_cluster, mime_lite, fed_avg', 'fedjax.optimizers.ignore_grads_haiku',
             'for_each_client backends', 'batching', 'pickle round trip on restart'],
    'stub': ['deployment schedule (cohorts, dropout, domain blackout, restart) from the seeded scheduler',
             'recording proxy around the client optimizer (ignore_grads monitor) - delegates to the real optimizer'],
}
SYSTEMS = ['agnostic', 'apfl', 'hyp', 'mimelite', 'ignore']


def plan(tier):
  if tier == 'quick':
    return {'runs': 160, 'budget_s': 540, 'per_run_timeout_s': 500, 'selftest_runs': 8,
            'selftest_runs_full': 48, 'shrink_budget_s': 120, 'max_runs_per_process': 400}
  return {'runs': 10000, 'budget_s': 1800, 'per_run_timeout_s': 900, 'selftest_runs': 16,
          'selftest_runs_full': 96, 'shrink_budget_s': 240, 'max_runs_per_process': 400}


def generate(seed, tier):
  from vsim.rng import Rng
  from vsim import fedsim
  r = Rng(seed).sub('c17')
  g = r.sub('cfg')
  system = g.choice(SYSTEMS)
  n_clients = g.randint(2, 8)
  name = {'agnostic': 'agnostic', 'apfl': 'apfl', 'hyp': 'hyp', 'mimelite': 'mimelite', 'ignore': 'fedavg'}[system]
  spec = fedsim.gen_alg_spec(g.sub('spec'), name=name)
  spec['rng_variant'] = False if system in ('hyp', 'ignore') else spec['rng_variant']
  if system == 'mimelite':
    spec['clip'] = g.choice([0.001, 0.02, 0.2, 1.0, 50.0])
  if system == 'agnostic':
    spec['domain_alg'] = 'eg'
  backend = g.weighted([('jit', 6), ('debug', 1), (['pmap', g.randint(1, 4)], 2)])
  if system == 'ignore':
    backend = 'debug'
    spec['model'] = 'lin'
    # the base optimizer may move parameters even under a zero gradient (weight decay): ignored leaves must not move
    spec['copt'] = g.choice(['sgd', 'momentum', 'adam', 'adagrad', 'yogi', 'adamw', 'adamw', 'adafactor_wd', 'rmsprop'])
  if isinstance(backend, list):
    spec['pad_buckets'] = 1
  sc = {'system': system, 'spec': spec, 'backend': backend, 'pop_seed': g.randint(0, 2**30), 'n_clients': n_clients,
        'init_seed': g.randint(0, 2**30), 'frozen': g.choice([['frozen/w'], ['frozen/w', 'linear/b'], ['linear/w']]),
        'ops': []}
  o = r.sub('rounds')
  nd = spec.get('num_domains', 2)
  for _ in range(o.randint(3, 12 if system != 'ignore' else 5)):
    cohort = o.sample(range(n_clients), o.randint(1, min(6, n_clients)))
    sc['ops'].append({'cohort': cohort, 'key_seed': o.randint(0, 2**30),
                      'dropout': [c for c in cohort if o.chance(0.15)], 'all_drop': o.chance(0.07),
                      'blackout': [dd for dd in range(nd) if o.chance(0.3)] if system == 'agnostic' else [],
                      'restart': o.chance(0.15),
                      # APFL: personalised evaluation between rounds, on clients that may never have trained
                      'eval': (o.sample(range(n_clients), o.randint(1, n_clients)) if (system == 'apfl' and o.chance(0.4)) else [])})
  return sc


_EVAL_FN = {}


def _apfl_eval_fn(spec):
  """Real eval_adaptive_personalized_federated_learning for the spec's model (cached per model kind)."""
  import fedjax
  import jax.numpy as jnp
  from fedjax.algorithms import apfl
  from fedjax.core import metrics as fmetrics
  from vsim import fedsim
  key = (spec['model'], spec['pad_bs'])
  if key not in _EVAL_FN:
    kind = spec['model']

    class SqErr(fmetrics.Metric):
      def zero(self):
        return fmetrics.MeanStat.new(0., 0.)

      def evaluate_example(self, example, prediction):
        return fmetrics.MeanStat.new((prediction - example['y'])**2, 1.)

    if kind == 'lin':
      def apply_eval(params, batch):
        return batch['x'] @ params['w'] + params['b']
      eval_metrics = {'sqerr': SqErr()}
    else:
      def apply_eval(params, batch):
        return batch['x'] @ params['W'] + params['c']
      eval_metrics = {'accuracy': fmetrics.Accuracy(target_key='yc')}
    model = fedjax.Model(init=lambda rng: None, apply_for_train=lambda p, b, r: apply_eval(p, b),
                         apply_for_eval=apply_eval, train_loss=lambda b, p: p, eval_metrics=eval_metrics)
    _EVAL_FN[key] = apfl.eval_adaptive_personalized_federated_learning(
        model, fedjax.PaddedBatchHParams(batch_size=spec['pad_bs']))
  return _EVAL_FN[key]


def _round_clients(pop, ids, op, nd, recording):
  """[(cid, dataset, key, raw, log)] for one round after dropout / domain blackout."""
  import numpy as np
  import fedjax
  from vsim import fedsim
  idx = [i for i in op['cohort'] if i < len(ids)]
  keys = fedsim.cohort_keys(op['key_seed'], len(idx))
  out = []
  for j, i in enumerate(idx):
    raw = dict(pop[ids[i]])
    raw['domain_id'] = (raw['domain_id'] % nd).astype(np.int32)
    if op['all_drop'] or i in op['dropout']:
      raw = fedsim.empty_like(raw)
    if op['blackout']:
      keep = ~np.isin(raw['domain_id'], op['blackout'])
      raw = {k: v[keep] for k, v in raw.items()}
    log = []
    ds = fedsim.recording_dataset(raw, log) if recording else fedjax.ClientDataset(raw)
    out.append((ids[i], ds, keys[j], raw, log))
  return out


def execute(sc):
  import jax
  import numpy as np
  import pickle
  from vsim import fedsim
  from vsim.rng import Rng
  from vsim.trace import Trace, Counters
  trace = Trace(keep=False)
  probes, faults = Counters(), Counters()
  viols, sigs = [], set()
  system, spec, backend = sc['system'], sc['spec'], sc['backend']
  nd = spec.get('num_domains', 2)

  def violation(clause, sig, msg):
    if sig not in sigs:
      sigs.add(sig)
      viols.append({'clause': clause, 'signature': sig, 'message': msg})

  fedsim._ALG_CACHE.clear()   # fresh algorithm objects per scenario (replayability under hidden state)
  pop = fedsim.make_population(Rng(sc['pop_seed']).sub('pop'), sc['n_clients'], spec['d'], num_domains=nd)
  ids = sorted(pop)
  g_init = Rng(sc['init_seed']).sub('init')
  hist = []
  evals = 0
  participated, with_batches = set(), set()

  # ---------------------------------------------------------------- ignore_grads: special system
  if system == 'ignore':
    return _exec_ignore(sc, pop, ids, trace, probes, faults, viols, violation)

  try:
    alg = fedsim.build_algorithm(spec, backend)
    state = fedsim.init_state(spec, alg, g_init)
  except Exception as e:
    violation('build', f'I:constructor-raises:{type(e).__name__}:{system}', str(e)[:200])
    return _out(trace, viols, probes, faults, hist, 0, sc, False)
  copt = fedsim.optimizer(spec['copt'])
  sopt = fedsim.optimizer(spec['sopt'])
  window_model = [np.ones((nd,), np.float64) for _ in range(spec.get('window', 1))]
  rounds_since_start = 0
  nontrivial = False

  for ri, op in enumerate(sc['ops']):
    if op['restart'] and ri > 0:
      faults.inc('restart')
      probes.inc('restart_between_rounds')
      state = pickle.loads(pickle.dumps(state))
      alg = fedsim.build_algorithm(spec, backend, fresh=True)
    clients = _round_clients(pop, ids, op, nd, recording=(system == 'hyp'))
    sizes = [len(c[3]['x']) for c in clients]
    label = f'{system} round {ri} backend={backend} sizes={sizes}'
    kinds = set()
    if any(c[0] in participated for c in clients):
      probes.inc('returning_client')
      kinds.add('returning')
      if system == 'apfl':
        nontrivial = True
    if clients and sum(sizes) == 0:
      probes.inc('whole_cohort_dropout')
      faults.inc('whole_cohort_dropout')
      kinds.add('all-empty')
    if any(s == 0 for s in sizes):
      faults.inc('client_dropout')
    if system == 'apfl' and op.get('eval'):
      probes.inc('apfl_eval_between_rounds')
      ev_ids = [ids[i] for i in op['eval'] if i < len(ids)]
      if any(c not in participated for c in ev_ids):
        probes.inc('apfl_eval_of_client_that_never_trained')
        nontrivial = True
      snap = fedsim.snapshot(state)
      try:
        import fedjax
        res_ = list(_apfl_eval_fn(spec)(state, [(c, fedjax.ClientDataset(dict(pop[c]))) for c in ev_ids]))
        if sorted(r[0] for r in res_) != sorted(ev_ids):
          violation('eval', 'I:apfl-eval-does-not-return-one-result-per-client', f'{label}: {[r[0] for r in res_]} vs {ev_ids}')
      except Exception as e:
        violation('eval', f'I:apfl-eval-raises:{type(e).__name__}', f'{label}: {str(e)[:200]}')
      d = fedsim.snapshot_diff(state, snap)
      if d:
        violation('table', 'I:apfl-evaluation-changes-the-server-state', f'{label}: evaluating {ev_ids}: {d}')
    prev = state
    try:
      state, diag = alg.apply(state, [(c[0], c[1], c[2]) for c in clients])
      jax.block_until_ready(jax.tree_util.tree_leaves(state))
    except Exception as e:
      import traceback
      tb = traceback.extract_tb(e.__traceback__)
      site = next((f'{f.filename.split("/fedjax/")[-1]}:{f.name}' for f in reversed(tb) if '/fedjax/' in f.filename), '?')
      violation('apply', f'I:apply-raises:{type(e).__name__}@{site}:{system}', f'{label}: {str(e)[:240]}')
      break
    evals += 1
    participated |= {c[0] for c in clients}
    hp = spec['hp']
    for c, n in zip(clients, sizes):
      if n > 0 and (hp['num_steps'] is None or hp['num_steps'] > 0) and not (hp['drop_remainder'] and n * (hp['num_epochs'] or 1) < hp['batch_size']):
        with_batches.add(c[0])

    # ------------------------------------------------------------ agnostic
    if system == 'agnostic':
      # excluded regime (DESIGN 4/C17): training that diverges makes exp(domain_lr * loss) overflow float32; nothing
      # defines the behaviour there.  The reference per-domain mean loss at the round's starting params decides it.
      worst = 0.0
      for c in clients:
        for dd in range(nd):
          sel = c[3]['domain_id'] == dd
          if sel.any():
            s_, n_ = fedsim.np_loss_sum(spec['model'], prev.params, {k: v[sel] for k, v in c[3].items()})
            worst = max(worst, s_ / n_ if np.isfinite(s_) else np.inf)
      pmax = max(float(np.max(np.abs(np.asarray(l)))) for l in jax.tree_util.tree_leaves(prev.params))
      if not np.isfinite(worst) or spec['domain_lr'] * worst > 20 or worst > 1e4 or not (pmax <= 1e3):
        probes.inc('excluded_diverged_training_round')
        break
      counts = np.zeros((nd,), np.float64)
      for c in clients:
        counts += np.bincount(c[3]['domain_id'], minlength=nd)[:nd]
      if (counts == 0).any():
        probes.inc('domain_without_examples')
        faults.inc('domain_blackout')
        kinds.add('domain-absent')
        nontrivial = True
      window_model = window_model[1:] + [counts]
      rounds_since_start += 1
      if rounds_since_start >= spec['window']:
        probes.inc('window_fully_rolled_over')
      if (np.sum(window_model, axis=0) == 0).any():
        probes.inc('domain_absent_from_whole_window')
        kinds.add('domain-absent-whole-window')
      w = np.asarray(state.domain_weights, np.float64)
      if not np.all(np.isfinite(w)):
        violation('simplex', 'I:agnostic-domain-weights-not-finite', f'{label}: weights {w.tolist()} (window {[x.tolist() for x in window_model]})')
      elif (w < 0).any() or abs(w.sum() - 1) > 1e-5:
        violation('simplex', 'I:agnostic-domain-weights-not-a-probability-vector', f'{label}: weights {w.tolist()} sum {w.sum()}')
      if len(state.domain_window) != spec['window']:
        violation('window', 'I:agnostic-window-length-changed', f'{label}: len {len(state.domain_window)} != {spec["window"]}')
      else:
        got = [np.asarray(x, np.float64) for x in state.domain_window]
        if any(a.shape != b.shape or not np.allclose(a, b) for a, b in zip(got, window_model)):
          violation('window', 'I:agnostic-window-is-not-the-last-W-domain-counts',
                    f'{label}: window {[a.tolist() for a in got]} expected {[b.tolist() for b in window_model]}')
      leaves = [np.asarray(l) for l in jax.tree_util.tree_leaves(state.params)]
      if not all(np.all(np.isfinite(l)) for l in leaves):
        violation('finite', 'I:agnostic-params-not-finite', f'{label}: params became non-finite '
                  f'(window before this round {[np.asarray(x).tolist() for x in prev.domain_window]})')
        break

    # ---------------------------------------------------------------- apfl
    elif system == 'apfl':
      table = state.client_states
      extra = set(table) - participated
      if extra:
        violation('table', 'I:apfl-client-state-for-client-that-never-participated', f'{label}: {sorted(extra)}')
      missing = with_batches - set(table)
      if missing:
        violation('table', 'I:apfl-client-state-missing-for-participant', f'{label}: {sorted(missing)}')
      for cid, cs in table.items():
        for l in jax.tree_util.tree_leaves(cs.interpolation_coefficients):
          a = np.asarray(l, np.float64)
          if not np.all(np.isfinite(a)) or (a < 0).any() or (a > 1).any():
            violation('box', 'I:apfl-interpolation-coefficient-outside-unit-interval', f'{label}: client {cid}: {a.tolist()}')
          if ((a == 0) | (a == 1)).any():
            probes.inc('coefficient_hit_bound_0_or_1')

    # ----------------------------------------------------------------- hyp
    elif system == 'hyp':
      K = spec['clusters']
      prevp = prev.cluster_params
      assigned = {k: [] for k in range(K)}
      for c in clients:
        cid = c[0]
        got = int(np.asarray(diag[cid]['cluster_id']))
        n = len(c[3]['x'])
        losses = []
        for k in range(K):
          s_, cnt = fedsim.np_loss_sum(spec['model'], prevp[k], c[3])
          losses.append(s_ / cnt if cnt else 0.0)
        if losses[got] > min(losses) + 1e-4 * (1 + abs(min(losses))):
          violation('assignment', 'I:hyp-client-not-assigned-to-cluster-of-minimal-loss',
                    f'{label}: client {cid} assigned {got}, reference average losses {losses}')
        assigned[got].append(c)
      if any(not v for v in assigned.values()):
        probes.inc('empty_cluster_round')
        faults.inc('cluster_without_clients')
        kinds.add('empty-cluster')
        nontrivial = True
      if K > 1 and sum(1 for v in assigned.values() if v) == 1:
        probes.inc('all_clients_one_cluster')
      for k in range(K):
        cl = assigned[k]
        if not cl:
          if fedsim.tree_bits(state.cluster_params[k]) != fedsim.tree_bits(prevp[k]) or \
             fedsim.tree_bits(state.opt_states[k]) != fedsim.tree_bits(prev.opt_states[k]):
            violation('untouched', 'I:hyp-cluster-without-clients-was-modified', f'{label}: cluster {k}')
          continue
        ns = [len(c[3]['x']) for c in cl]
        if sum(ns) == 0:
          continue
        trained = []
        ill = False
        for c in cl:
          batches = [b for k_, b in c[4] if k_ == 'srb']
          tc, _ = fedsim.ref_local_train(spec['model'], False, prevp[k], batches, c[2], copt)
          ill = ill or (fedsim.ILL['flag'] and spec['copt'] in ('adam', 'adagrad', 'yogi'))
          trained.append(tc)
        if ill:
          continue
        mean = fedsim.weighted_mean_delta(prevp[k], trained, ns)
        bad, _wide = fedsim.server_step_check(sopt, mean, prev.opt_states[k], prevp[k], state.cluster_params[k])
        if bad:
          violation('own-clients', 'I:hyp-cluster-update-is-not-the-mean-of-its-own-clients',
                    f'{label}: cluster {k} with clients {[c[0] for c in cl]}: {bad}')

    # ------------------------------------------------------------ mimelite
    elif system == 'mimelite':
      bound = spec['clip']
      trig = False
      for cid, dgn in diag.items():
        cn = float(np.asarray(dgn['clipped_delta_l2_norm']))
        if not (cn <= bound * (1 + 1e-5) + 1e-12):
          violation('clip', 'I:mimelite-aggregated-update-exceeds-clip-norm', f'{label}: client {cid} clipped norm {cn} > {bound}')
        if bool(np.asarray(dgn['clipped'])):
          trig = True
      probes.inc('clip_triggered' if trig else 'clip_not_triggered')
      if trig:
        nontrivial = True
        kinds.add('clipped')
      step = float(np.sqrt(sum(np.sum((np.asarray(a, np.float64) - np.asarray(b, np.float64))**2)
                               for a, b in zip(jax.tree_util.tree_leaves(state.params), jax.tree_util.tree_leaves(prev.params)))))
      if not np.isfinite(step) or step > spec['server_lr'] * bound * (1 + 1e-4) + 1e-7:
        violation('clip', 'I:mimelite-server-step-exceeds-lr-times-clip-norm',
                  f'{label}: |theta_new - theta| = {step} > {spec["server_lr"]} * {bound}')
    hist.append(tuple(sorted(kinds)))
    trace.ev('round', i=ri, bits=fedsim.tree_bits(state), sizes=sizes)
  return _out(trace, viols, probes, faults, hist, evals, sc, nontrivial)


def _exec_ignore(sc, pop, ids, trace, probes, faults, viols, violation):
  """ignore_grads_haiku as client optimizer inside real FedAvg on the debug backend."""
  import jax
  import jax.numpy as jnp
  import numpy as np
  import fedjax
  from vsim import fedsim
  from vsim.rng import Rng
  spec = sc['spec']
  d = spec['d']
  frozen = [tuple(f.split('/')) for f in sc['frozen']]
  base = fedsim.optimizer(spec['copt'])
  real = fedjax.optimizers.ignore_grads_haiku(base, frozen)
  g = Rng(sc['init_seed']).sub('init')
  params = {'linear': {'w': jnp.asarray(np.array([g.uniform(-1, 1) for _ in range(d)], np.float32)),
                       'b': jnp.asarray(np.float32(g.uniform(-1, 1)))},
            'frozen': {'w': jnp.asarray(np.array([g.uniform(0.5, 1.5) for _ in range(d)], np.float32))}}
  # ignore_grads_haiku documents haiku-style params and returns haiku's immutable mapping; give it that type
  import haiku as hk
  params = hk.data_structures.to_immutable_dict(params)

  def loss(p, batch, rng):
    pred = (batch['x'] * p['frozen']['w']) @ p['linear']['w'] + p['linear']['b']
    return jnp.mean((pred - batch['y'])**2)
  grad_fn = jax.grad(loss)
  monitor = {'steps': 0, 'shadow': None}

  def sub(tree):
    return {m: {n: v for n, v in leaves.items() if (m, n) not in frozen} for m, leaves in tree.items()
            if any((m, n) not in frozen for n in leaves)}

  def rec_init(p):
    monitor['shadow'] = base.init(sub(p))
    return real.init(p)

  def rec_apply(grads, opt_state, p):
    new_state, new_p = real.apply(grads, opt_state, p)
    monitor['steps'] += 1
    for (m, n) in frozen:
      if np.asarray(new_p[m][n]).tobytes() != np.asarray(p[m][n]).tobytes():
        violation('ignore', 'I:ignored-parameter-changed-by-optimizer', f'step {monitor["steps"]}: {m}/{n} '
                  f'{np.asarray(p[m][n]).tolist()} -> {np.asarray(new_p[m][n]).tolist()}')
      if float(np.max(np.abs(np.asarray(grads[m][n])))) > 0:
        probes.inc('frozen_leaf_nonzero_grad')
    monitor['shadow'], want = base.apply(sub(grads), monitor['shadow'], sub(p))
    bad = fedsim.tree_close(sub(new_p), want, rtol=1e-6, atol=1e-7)
    if bad:
      violation('ignore', 'I:trainable-parameters-differ-from-base-optimizer', f'step {monitor["steps"]}: {bad}')
    if set(new_p) != set(p) or any(set(new_p[m]) != set(p[m]) for m in p):
      violation('ignore', 'I:parameter-structure-changed-by-optimizer', f'{ {m: sorted(v) for m, v in new_p.items()} }')
    return new_state, new_p

  proxy = fedjax.optimizers.Optimizer(rec_init, rec_apply)
  with fedjax.for_each_client_backend('debug'):
    alg = fedjax.algorithms.fed_avg.federated_averaging(grad_fn, proxy, fedsim.optimizer(spec['sopt']),
                                                        fedsim.hparams_obj(spec['hp']))
  state = alg.init(params)
  evals = 0
  hist = []
  for ri, op in enumerate(sc['ops']):
    clients = _round_clients(pop, ids, op, 2, recording=False)
    try:
      state, _ = alg.apply(state, [(c[0], c[1], c[2]) for c in clients])
    except Exception as e:
      base_e = getattr(e, 'base', e)
      violation('apply', f'I:apply-raises:{type(base_e).__name__}:ignore', f'round {ri}: {str(e)[:240]}')
      break
    evals += 1
    hist.append(('ignore',))
    trace.ev('round', i=ri, bits=fedsim.tree_bits(state))
  return _out(trace, viols, probes, faults, hist, evals, sc, probes.get('frozen_leaf_nonzero_grad', 0) > 0,
              extra={'optimizer_steps_monitored': monitor['steps']})


def _out(trace, viols, probes, faults, hist, evals, sc, nontrivial, extra=None):
  spec = sc['spec']
  cls = (sc['system'], spec.get('num_domains'), spec.get('window'), spec.get('clusters'), spec.get('clip'),
         spec['copt'], spec['sopt'], repr(sc['backend']) if not isinstance(sc['backend'], list) else 'pmap')
  hkey = hashlib.sha256(repr((cls, hist)).encode()).hexdigest()[:12]
  sample = {'system': sc['system'], 'backend': sc['backend'],
            'spec': {k: v for k, v in spec.items() if k in ('name', 'model', 'copt', 'sopt', 'hp', 'num_domains', 'window',
                                                              'domain_lr', 'clusters', 'clip', 'coef', 'server_lr', 'base')},
            'rounds': [{k: o.get(k) for k in ('cohort', 'dropout', 'all_drop', 'blackout', 'restart', 'eval')} for o in sc['ops']]}
  return {'digest': trace.digest(), 'evaluations': max(evals, 1), 'violations': viols, 'probes': dict(probes),
          'faults': dict(faults), 'distinct': [hkey], 'nontrivial': [hkey] if nontrivial else [], 'sim_rounds': evals,
          'sim_seconds': 0.0, 'sample': sample, 'extra_counts': extra or {}}


def _simplify(sc):
  if sc['backend'] not in ('jit', 'debug'):
    yield dict(sc, backend='jit')
  sp = sc['spec']
  for k, v in (('rng_variant', False), ('copt', 'sgd'), ('sopt', 'sgd1'), ('model', 'lin'), ('d', 1)):
    if sp.get(k) != v and not (sc['system'] == 'apfl' and k == 'copt'):
      yield dict(sc, spec=dict(sp, **{k: v}))
  for i, op in enumerate(sc['ops']):
    for fld, empty in (('dropout', []), ('blackout', []), ('all_drop', False), ('restart', False), ('eval', [])):
      if op.get(fld):
        yield dict(sc, ops=sc['ops'][:i] + [dict(op, **{fld: empty})] + sc['ops'][i + 1:])
    for j in range(len(op['cohort'])):
      if len(op['cohort']) > 1:
        yield dict(sc, ops=sc['ops'][:i] + [dict(op, cohort=op['cohort'][:j] + op['cohort'][j + 1:])] + sc['ops'][i + 1:])


SHRINK = {'list_keys': ('ops',), 'simplifiers': (_simplify,)}
