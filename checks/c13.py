"""C13 - client sampling is a pure function of (seed, round number).

Sampler restart machine (DESIGN.md C13): histories of sample / set_round_num /
restart / interleaved sampler objects / global-RNG noise over real samplers on
real in-memory and SQLite datasets; the oracle is a round -> cohort table filled
at first observation.
"""
import hashlib
import os

PROP = 'C13'
LEVEL = 'exploration'
RULE = ('A scenario is a dataset (2-30 clients, ids with trailing zero bytes, in-memory or SQLite), a sampler seed, a cohort '
        'size, and a history of up to 40 ops over up to 3 round-indexed sampler objects: sample, set_round_num (forward, '
        'backward, repeated, up to 10^6), restart (new object at start_round_num=r, as after a crash), interleaved use of '
        'several objects, and noise on the global numpy/python RNGs between ops; plus a streaming part: a sampler started '
        'at 0 consumes m rounds of a really shuffled fd.shuffled_clients(buffer, seed) stream and samplers restarted at '
        'r over fresh streams must reproduce rounds r, r+1, .... Oracle: table round -> (ids, dataset contents, keys) filled '
        'at first observation. evaluations = sample() calls checked. distinct = hash of (op-kind sequence, cohort/population '
        'class, backend); non-trivial = the history re-observes at least one round after a restart or backward jump.')
DISTINCT_MEASURE = 'distinct (op-kind sequence, cohort/population ratio class, dataset kind) hashes'
PROBES = ('backward_jump', 'restart_at_r_gt_0', 'cohort_eq_population', 'trailing_zero_id_sampled', 'stream_restart_mid_pass',
          'round_reobserved', 'two_objects_interleaved', 'global_rng_noise', 'sqlite_dataset', 'huge_round_number')
OPTIONAL_PROBES = ('restart_in_fresh_interpreter', 'second_dataset_with_same_ids')
ASSUMPTIONS = ['shuffled_clients is always given an explicit seed (seed=None is documented as non-reproducible)',
               'round numbers stay below 2**31 (PRNGKey(round))']
REAL_VS_STUB = {
    'real': ['fedjax.client_samplers.UniformGetClientSampler / UniformShuffledClientSampler / get_pseudo_random_state',
             'fedjax.InMemoryFederatedData, SQLiteFederatedData (real file)', 'jax.random', 'numpy RandomState'],
    'stub': ['process restart = fresh sampler objects on the same data and seed', 'interference from other users of the global '
             'numpy / python RNG is injected by the scheduler'],
}


def plan(tier):
  if tier == 'quick':
    return {'runs': 2400, 'budget_s': 420, 'per_run_timeout_s': 120, 'selftest_runs': 16,
            'selftest_runs_full': 96, 'shrink_budget_s': 60}
  return {'runs': 150000, 'budget_s': 1800, 'per_run_timeout_s': 300, 'selftest_runs': 32,
          'selftest_runs_full': 256, 'shrink_budget_s': 120}


def generate(seed, tier):
  from vsim.rng import Rng
  r = Rng(seed).sub('c13')
  g = r.sub('cfg')
  n = g.weighted([(2, 2), (3, 2), (5, 3), (8, 3), (13, 2), (30, 1)])
  cohort = g.weighted([(1, 2), (n, 2), (max(1, n // 2), 3), (g.randint(1, n), 4)])
  cfg = {'n': n, 'cohort': cohort, 'seed': g.choice([0, 1, g.randint(0, 2**31 - 1)]), 'data_seed': g.randint(0, 10**6),
         'sqlite': g.chance(0.3), 'buffer': g.choice([1, 2, n, n + 5, max(1, n // 2)]),
         'stream_seed': g.randint(0, 10**6), 'stream_rounds': g.choice([2, 3, 5, 8, 20, 40])}
  o = r.sub('ops')
  ops = []
  rounds_pool = [0, 1, 2, 3, 5, 8]
  for _ in range(o.randint(5, 40)):
    k = o.weighted([('sample', 10), ('set', 4), ('restart', 3), ('noise', 2), ('run', 1), ('restart_seen', 2)])
    obj = o.randint(0, 2) if o.chance(0.8) else o.randint(3, 4)   # objects 3,4 sample a second dataset with the same ids
    if k == 'sample':
      ops.append(['sample', obj])
    elif k == 'run':            # a long uninterrupted stretch of consecutive rounds on one object
      for _ in range(o.randint(8, 40)):
        ops.append(['sample', obj])
    elif k == 'restart_seen':   # crash/restart seated at a round that some object has already served
      ops.append(['restart_seen', obj, o.randint(0, 10**6)])
    elif k in ('set', 'restart'):
      rr = o.choice(rounds_pool) if o.chance(0.85) else o.choice([10**6, 12345, 2**20 + 7])
      ops.append([k, obj, rr])
    else:
      ops.append(['noise', o.randint(0, 10**6)])
  sops = [['restart', o.randint(0, cfg['stream_rounds'] - 1), o.randint(1, 4)] for _ in range(o.randint(1, 3))]
  sc = {'config': cfg, 'ops': ops, 'stream_ops': sops}
  if g.chance(0.03):
    # a real process restart: the cohorts of a few rounds are recomputed by a fresh interpreter started with another
    # PYTHONHASHSEED (per-process state such as hash randomisation must not enter the sample)
    sc['crossproc'] = {'hashseed': g.randint(1, 10**6), 'rounds': [o.choice([0, 1, 2, 3, 5, 8]) for _ in range(3)]}
  return sc


_N = [0]


def execute(sc):
  import numpy as np
  import random as pyrandom
  import fedjax
  from fedjax.core import client_samplers as cs
  from fedjax.core import sqlite_federated_data as sfd
  from vsim.rng import Rng
  from vsim.trace import Trace, Counters
  cfg = sc['config']
  trace = Trace(keep=False)
  probes, faults = Counters(), Counters()
  viols, sigs = [], set()
  evals = [0]

  def violation(clause, sig, msg):
    if sig not in sigs:
      sigs.add(sig)
      viols.append({'clause': clause, 'signature': sig, 'message': msg})

  rs = np.random.RandomState(cfg['data_seed'])
  g = Rng(cfg['data_seed']).sub('ids')
  ids = set()
  while len(ids) < cfg['n']:
    base = b'u%03d' % g.randint(0, 999)
    ids.add(base + (b'\x00' * g.randint(1, 2) if g.chance(0.4) else b''))
  ids = sorted(ids)
  raw = {cid: {'x': rs.randint(0, 100, size=(rs.randint(1, 4), 2)).astype(np.int32)} for cid in ids}
  path = None
  try:
    if cfg['sqlite']:
      probes.inc('sqlite_dataset')
      _N[0] += 1
      path = f'/dev/shm/vsim-c13-{os.getpid()}-{_N[0]}.sqlite'
      if os.path.exists(path):
        os.remove(path)
      with sfd.SQLiteFederatedDataBuilder(path) as b:
        b.add_many((cid, raw[cid]) for cid in Rng(cfg['data_seed']).sub('ord').shuffle(ids))
      fd = sfd.SQLiteFederatedData.new(path)
    else:
      fd = fedjax.InMemoryFederatedData(raw)
    k = cfg['cohort']
    if k == cfg['n']:
      probes.inc('cohort_eq_population')
    # second dataset: same client ids, different examples (e.g. a test split keyed by the same writer ids)
    raw_alt = {cid: {'x': (raw[cid]['x'] + 1000).astype(np.int32)} for cid in ids}
    fd_alt = fedjax.InMemoryFederatedData(raw_alt)

    def observe(clients, where, stream=False, data=None):
      """Checks the within-round clauses and returns the canonical record of the cohort."""
      data = raw if data is None else data
      evals[0] += 1
      cids = [c[0] for c in clients]
      if len(clients) != k:
        violation('cohort', 'S:cohort-size-differs', f'{where}: {len(clients)} clients, cohort size {k}')
      # the no-repeat clause is stated for the round-indexed sampler only: a streaming round may
      # straddle two shuffled passes and legitimately contain a client twice
      if not stream and len(set(cids)) != len(cids):
        violation('distinct', 'S:client-repeated-within-round', f'{where}: {cids}')
      for cid, ds, key in clients:
        if type(cid) is not bytes or cid not in raw:
          violation('ids', 'S:sampled-id-not-in-dataset-byte-for-byte', f'{where}: {cid!r} not in {ids[:5]}...')
          continue
        if cid.endswith(b'\x00'):
          probes.inc('trailing_zero_id_sampled')
        got = ds.all_examples()
        if sorted(got) != ['x'] or np.asarray(got['x']).tobytes() != data[cid]['x'].tobytes():
          violation('datasets', 'S:sampled-dataset-differs-from-dataset-content', f'{where}: dataset of {cid}')
      keys = [np.asarray(c[2]).tobytes() for c in clients]
      if len(set(keys)) != len(keys):
        violation('keys', 'S:client-keys-not-pairwise-distinct', f'{where}: {len(set(keys))} distinct keys for {len(keys)} clients')
      return (tuple(cids), tuple(keys))

    # ---------------- round-indexed sampler
    table_main, table_alt = {}, {}
    table = table_main
    objs = {}      # obj index -> [sampler, model_round]
    hist = []
    reobserved = 0

    def fd_of(i):
      return fd_alt if i >= 3 else fd

    def get_obj(i):
      if i not in objs:
        objs[i] = [cs.UniformGetClientSampler(fd_of(i), k, cfg['seed'], start_round_num=0), 0]
      return objs[i]

    last_obj = None
    for oi, op in enumerate(sc['ops']):
      kind = op[0]
      hist.append(kind)
      if kind == 'sample':
        o = get_obj(op[1])
        if last_obj is not None and last_obj != op[1]:
          probes.inc('two_objects_interleaved')
        last_obj = op[1]
        r = o[1]
        try:
          clients = o[0].sample()
        except Exception as e:
          violation('sample', f'S:sample-raises:{type(e).__name__}', f'op#{oi} round {r}: {e!r}')
          continue
        o[1] = r + 1
        if op[1] >= 3:
          probes.inc('second_dataset_with_same_ids')
        rec = observe(clients, f'op#{oi} object {op[1]} round {r}', data=(raw_alt if op[1] >= 3 else raw))
        # one table per dataset: the cohort of a round may depend on the dataset's own iteration order of ids
        table = table_alt if op[1] >= 3 else table_main
        if r in table:
          reobserved += 1
          probes.inc('round_reobserved')
          if table[r][0] != rec[0]:
            violation('purity', 'S:round-not-reproduced:client-ids',
                      f'op#{oi}: round {r} gave {rec[0]} but {table[r][0]} when first observed ({table[r][2]})')
          if table[r][1] != rec[1]:
            violation('purity', 'S:round-not-reproduced:client-keys', f'op#{oi}: round {r} keys differ from first observation ({table[r][2]})')
        else:
          for r2, (ids2, keys2, _) in table.items():
            if set(keys2) & set(rec[1]):
              violation('keys', 'S:client-keys-repeat-across-rounds', f'rounds {r2} and {r} share a client key')
              break
          table[r] = (rec[0], rec[1], f'op#{oi} object {op[1]}')
      elif kind == 'set':
        o = get_obj(op[1])
        if op[2] < o[1]:
          probes.inc('backward_jump')
          faults.inc('backward_jump')
        if op[2] >= 10**4:
          probes.inc('huge_round_number')
        o[0].set_round_num(op[2])
        o[1] = op[2]
      elif kind == 'restart_seen':
        tb = table_alt if op[1] >= 3 else table_main
        if not tb:
          continue
        rr = sorted(tb)[op[2] % len(tb)]
        if rr > 0:
          probes.inc('restart_at_r_gt_0')
        faults.inc('restart')
        objs[op[1]] = [cs.UniformGetClientSampler(fd_of(op[1]), k, cfg['seed'], start_round_num=rr), rr]
      elif kind == 'restart':
        if op[2] > 0:
          probes.inc('restart_at_r_gt_0')
        if op[2] >= 10**4:
          probes.inc('huge_round_number')
        faults.inc('restart')
        objs[op[1]] = [cs.UniformGetClientSampler(fd_of(op[1]), k, cfg['seed'], start_round_num=op[2]), op[2]]
      elif kind == 'noise':
        probes.inc('global_rng_noise')
        faults.inc('global_rng_noise')
        np.random.seed(op[1] % (2**32))
        np.random.shuffle(np.arange(10))
        pyrandom.seed(op[1])

    # ---------------- a real restart in another interpreter
    if sc.get('crossproc') and not cfg['sqlite']:
      import json as _json
      import subprocess
      import sys
      cp = sc['crossproc']
      probes.inc('restart_in_fresh_interpreter')
      faults.inc('process_restart_other_hash_seed')
      child = (
          'import sys, json, types, os\n'
          'sys.path.insert(0, %r)\n'
          'from vsim import boot\n'
          'boot.boot()\n'
          'import numpy as np, fedjax\n'
          'from fedjax.core import client_samplers as cs\n'
          'a = json.loads(sys.argv[1])\n'
          'raw = {bytes.fromhex(k): {"x": np.array(v, np.int32)} for k, v in a["raw"].items()}\n'
          'fd = fedjax.InMemoryFederatedData(raw)\n'
          'out = {}\n'
          'for r in a["rounds"]:\n'
          '  s = cs.UniformGetClientSampler(fd, a["k"], a["seed"], start_round_num=r)\n'
          '  c = s.sample()\n'
          '  out[str(r)] = [[x[0].hex() for x in c], [np.asarray(x[2]).tobytes().hex() for x in c]]\n'
          'print("@@" + json.dumps(out))\n') % os.path.dirname(os.path.dirname(os.path.abspath(__file__)))
      arg = _json.dumps({'raw': {cid.hex(): raw[cid]['x'].tolist() for cid in ids}, 'k': k, 'seed': cfg['seed'],
                         'rounds': cp['rounds']})
      env = dict(os.environ, PYTHONHASHSEED=str(cp['hashseed']))
      r_ = subprocess.run([sys.executable, '-c', child, arg], capture_output=True, text=True, env=env, timeout=300)
      line = next((l for l in r_.stdout.splitlines() if l.startswith('@@')), None)
      if line is None:
        raise RuntimeError('cross-process probe failed: ' + r_.stderr[-500:])
      other = _json.loads(line[2:])
      for rr in cp['rounds']:
        o2 = get_obj(0)
        o2[0].set_round_num(rr)
        o2[1] = rr + 1
        here = observe(o2[0].sample(), f'round {rr} (this process)')
        there = (tuple(bytes.fromhex(x) for x in other[str(rr)][0]), tuple(bytes.fromhex(x) for x in other[str(rr)][1]))
        if here[0] != there[0]:
          violation('purity', 'S:round-not-reproduced-after-restart-in-another-process:client-ids',
                    f'round {rr}: this process {here[0]}, fresh interpreter (PYTHONHASHSEED={cp["hashseed"]}) {there[0]}')
        elif here[1] != there[1]:
          violation('purity', 'S:round-not-reproduced-after-restart-in-another-process:client-keys', f'round {rr}')

    # ---------------- streaming sampler
    m = cfg['stream_rounds']
    stream_table = {}
    try:
      s0 = cs.UniformShuffledClientSampler(fd.shuffled_clients(cfg['buffer'], cfg['stream_seed']), k, 0)
      for r in range(m + 4):
        stream_table[r] = observe(s0.sample(), f'stream round {r}', stream=True)
      for sop in sc['stream_ops']:
        r0, cnt = sop[1], sop[2]
        faults.inc('stream_restart')
        if (r0 * k) % cfg['n']:
          probes.inc('stream_restart_mid_pass')
        s1 = cs.UniformShuffledClientSampler(fd.shuffled_clients(cfg['buffer'], cfg['stream_seed']), k, r0)
        for j in range(cnt):
          r = r0 + j
          if r not in stream_table:
            break
          rec = observe(s1.sample(), f'restarted stream (start {r0}) round {r}', stream=True)
          reobserved += 1
          if rec[0] != stream_table[r][0]:
            violation('stream', 'S:restarted-stream-round-differs:client-ids',
                      f'start_round_num={r0}: round {r} gave {rec[0]}, original run gave {stream_table[r][0]}')
          if rec[1] != stream_table[r][1]:
            violation('stream', 'S:restarted-stream-round-differs:client-keys', f'start_round_num={r0}: round {r} keys differ')
    except Exception as e:
      violation('stream', f'S:stream-sampler-raises:{type(e).__name__}', repr(e)[:200])
    if cfg['sqlite']:
      fd._connection.close()
  finally:
    if path:
      try:
        os.remove(path)
      except OSError:
        pass
  ratio = 'all' if k == cfg['n'] else ('one' if k == 1 else 'some')
  hkey = hashlib.sha256(repr((hist, ratio, cfg['sqlite'])).encode()).hexdigest()[:12]
  trace.ev('c13', table=sorted((r, v[0], hashlib.sha256(b''.join(v[1])).hexdigest()[:8]) for r, v in table_main.items()),
           stream=sorted((r, v[0]) for r, v in stream_table.items()), viols=sorted(sigs))
  sample = {'config': cfg, 'ops': sc['ops'][:25], 'stream_ops': sc['stream_ops'],
            'rounds_observed': sorted(table_main)[:12], 'reobservations': reobserved}
  return {'digest': trace.digest(), 'evaluations': evals[0], 'violations': viols, 'probes': dict(probes),
          'faults': dict(faults), 'distinct': [hkey], 'nontrivial': [hkey] if reobserved else [], 'sim_rounds': evals[0],
          'sim_seconds': 0.0, 'sample': sample}


def _simplify(sc):
  c = sc['config']
  if c['sqlite']:
    yield dict(sc, config=dict(c, sqlite=False))
  if c['n'] > 2:
    n2 = max(2, c['n'] // 2)
    yield dict(sc, config=dict(c, n=n2, cohort=min(c['cohort'], n2)))
  if c['cohort'] > 1:
    yield dict(sc, config=dict(c, cohort=c['cohort'] - 1))


SHRINK = {'list_keys': ('ops', 'stream_ops'), 'simplifiers': (_simplify,)}
