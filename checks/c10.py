"""C10 - a training round is a pure function of (server state, clients).

FedSim history machine (DESIGN.md C10): a tree of states with apply / retry /
branch / restart (real save_state -> rebuilt objects -> load_state) over every
built-in algorithm and every compression aggregator.
"""
import hashlib

PROP = 'C10'
LEVEL = 'exploration'
RULE = ('A scenario picks one target - a built-in algorithm (FedAvg, FedProx, Mime, MimeLite, AgnosticFedAvg, HypCluster, APFL) '
        'with drawn hyper-parameters and backend, or an aggregator (mean, uniform +- arithmetic coding, rotated uniform, DRIVE, '
        'TernGrad) - and a history over a tree of states: apply(state_i, cohort_j) (any earlier state may be used again = '
        'branch; clients return), retry (an earlier call repeated verbatim later in the history), restart (state serialised '
        'with the real save_state onto the simulated file system, every algorithm/optimizer object rebuilt from its factory, '
        'state restored with load_state, the history continued on both copies). Checks: P1 retry is bit-identical (state and '
        'diagnostics); P2 the argument state, deep-snapshotted before each call (structure, dict keys, leaf bytes), is '
        'unchanged and readable afterwards; P3 the restored copy continued by fresh objects agrees with the original. '
        'evaluations = apply calls executed; distinct = (target, op-kind sequence); non-trivial = the history contains a retry '
        'after other calls, a branch, or a restart.')
DISTINCT_MEASURE = 'distinct (target, backend class, op-kind sequence) hashes'
PROBES = ('retry_after_other_calls', 'branch_from_old_state', 'restart_then_continue', 'same_client_twice_in_history',
          'apfl_client_table_nonempty_at_retry', 'hyp_cluster_empty_cluster', 'aggregator_history', 'non_jit_backend',
          'replica_with_fresh_objects',
          'dropout_client')
ASSUMPTIONS = [
    'batch hparams always carry a fixed seed: with seed=None the library legitimately re-randomises batch order per call',
    'empty cohorts are not generated for Mime/MimeLite/Agnostic (tree_sum of nothing is None; no property defines it)',
    'P3 uses allclose(1e-6) with NaN==NaN; P1 demands bit equality (same process, same compiled code)',
]
REAL_VS_STUB = {
    'real': ['fedjax.algorithms.{fed_avg,fed_prox,mime,mime_lite,agnostic_fed_avg,hyp_cluster,apfl}',
             'fedjax.aggregators.{mean_aggregator,uniform_stochastic_quantizer,rotated_uniform_stochastic_quantizer,'
             'structured_drive_quantizer,terngrad_quantizer}', 'fedjax.core.serialization.save_state/load_state (pickle)',
             'for_each_client backends', 'ClientDataset batching'],
    'stub': ['tensorflow GFile -> SimFS', 'process restart = every algorithm/optimizer/aggregator object rebuilt from its factory; '
             'only the serialised state survives'],
}
INCIDENTAL = ['checkpoint save/load equality (C16 clause 3)']
AGGS = ['mean', 'uniform', 'uniform_arith', 'rotated', 'drive', 'terngrad']


def plan(tier):
  if tier == 'quick':
    return {'runs': 320, 'budget_s': 540, 'per_run_timeout_s': 500, 'selftest_runs': 6,
            'selftest_runs_full': 32, 'shrink_budget_s': 120, 'max_runs_per_process': 400}
  return {'runs': 9000, 'budget_s': 1800, 'per_run_timeout_s': 900, 'selftest_runs': 12,
          'selftest_runs_full': 64, 'shrink_budget_s': 240, 'max_runs_per_process': 400}


def generate(seed, tier):
  from vsim.rng import Rng
  from vsim import fedsim
  r = Rng(seed).sub('c10')
  g = r.sub('cfg')
  n_clients = g.randint(2, 7)
  sc = {'pop_seed': g.randint(0, 2**30), 'n_clients': n_clients, 'init_seed': g.randint(0, 2**30), 'ops': []}
  if g.chance(0.3):
    sc['target'] = 'agg'
    sc['agg'] = {'name': g.choice(AGGS), 'levels': g.choice([2, 3, 4, 8, 17]), 'key_seed': g.randint(0, 2**30),
                 'leaf_sizes': [g.choice([1, 3, 4, 8, 33]) for _ in range(g.randint(1, 3))]}
  else:
    sc['target'] = 'alg'
    sc['spec'] = fedsim.gen_alg_spec(g.sub('spec'))
    sc['backend'] = g.weighted([('jit', 6), ('debug', 1), (['pmap', g.randint(1, 4)], 2)])
    if isinstance(sc['backend'], list):
      sc['spec']['pad_buckets'] = 1    # pmap documents uniformly shaped blocks: no bucketed (ragged) final batches
  o = r.sub('ops')
  n_nodes, n_applies = 1, 0
  for _ in range(o.randint(3, 9)):
    k = o.weighted([('apply', 6), ('retry', 3 if n_applies else 0), ('restart', 2)])
    if k == 'retry':
      sc['ops'].append(['retry', o.randint(0, n_applies - 1)])
      continue
    cohort = o.sample(range(n_clients), o.randint(1, min(5, n_clients)))
    drop = [c for c in cohort if o.chance(0.12)]
    sc['ops'].append([k, o.randint(0, n_nodes - 1), cohort, o.randint(0, 2**30), drop, o.chance(0.25)])
    n_nodes += 1
    n_applies += 1
  return sc


def _agg_obj(a):
  import jax
  from fedjax.aggregators import compression as ag
  from fedjax.aggregators import aggregator as ag0
  key = jax.random.PRNGKey(a['key_seed'])
  n = a['name']
  if n == 'mean':
    return ag0.mean_aggregator()
  if n == 'uniform':
    return ag.uniform_stochastic_quantizer(a['levels'], key)
  if n == 'uniform_arith':
    return ag.uniform_stochastic_quantizer(a['levels'], key, 'arithmetic')
  if n == 'rotated':
    return ag.rotated_uniform_stochastic_quantizer(a['levels'], key)
  if n == 'drive':
    return ag.structured_drive_quantizer(key)
  return ag.terngrad_quantizer(key)


def _agg_inputs(a, cohort, key_seed):
  """[(cid, tree, weight)] deterministic in (cohort, key_seed)."""
  import numpy as np
  import jax.numpy as jnp
  out = []
  for c in cohort:
    rs = np.random.RandomState((key_seed + 7919 * c) % (2**31))
    tree = {f'l{i}': jnp.asarray(rs.uniform(-1, 1, size=(s,)).astype(np.float32) + 0.01)
            for i, s in enumerate(a['leaf_sizes'])}
    out.append((b'c%d' % c, tree, float(rs.randint(0, 4))))
  if all(w == 0 for _, _, w in out):
    out[0] = (out[0][0], out[0][1], 1.0)
  return out


def _close(a, b, tol=1e-6):
  import jax
  import numpy as np
  la, ta = jax.tree_util.tree_flatten(a)
  lb, tb = jax.tree_util.tree_flatten(b)
  if ta != tb:
    return f'structure differs: {str(ta)[:100]} vs {str(tb)[:100]}'
  for i, (x, y) in enumerate(zip(la, lb)):
    x, y = np.asarray(x), np.asarray(y)
    if x.shape != y.shape:
      return f'leaf {i} shape'
    if x.dtype.kind == 'f':
      if not np.allclose(x, y, rtol=tol, atol=tol, equal_nan=True):
        return f'leaf {i}: {x.tolist()} vs {y.tolist()}'
    elif not np.array_equal(x, y):
      return f'leaf {i}: {x.tolist()} vs {y.tolist()}'
  return None


def execute(sc):
  import jax
  import numpy as np
  from vsim import boot, fedsim
  from vsim.rng import Rng
  from vsim.trace import Trace, Counters
  from fedjax.core import serialization
  trace = Trace(keep=False)
  probes, faults = Counters(), Counters()
  viols, sigs = [], set()
  fs, _clock = boot.new_world()
  fs.dirs.add('/ckpt')

  def violation(clause, sig, msg):
    if sig not in sigs:
      sigs.add(sig)
      viols.append({'clause': clause, 'signature': sig, 'message': msg})

  fedsim._ALG_CACHE.clear()   # fresh algorithm objects per scenario (replayability under hidden state)
  is_agg = sc['target'] == 'agg'
  if is_agg:
    a = sc['agg']
    tname = 'agg:' + a['name']
    obj = _agg_obj(a)
    root = obj.init()
    probes.inc('aggregator_history')

    def call(o, state, cohort, key_seed, drop):
      inputs = _agg_inputs(a, cohort, key_seed)
      snaps = [fedsim.snapshot(t) for _, t, _ in inputs]
      agg, new_state = o.apply(inputs, state)
      for (cid, t, _), s in zip(inputs, snaps):
        d = fedsim.snapshot_diff(t, s)
        if d:
          violation('inputs', f'P2:client-params-changed-by-aggregator:{a["name"]}', f'{cid}: {d}')
      return new_state, agg

    def fresh():
      return _agg_obj(a)
  else:
    spec = sc['spec']
    tname = spec['name']
    pop = fedsim.make_population(Rng(sc['pop_seed']).sub('pop'), sc['n_clients'], spec['d'],
                                 num_domains=spec.get('num_domains', 2))
    ids = sorted(pop)
    obj = fedsim.build_algorithm(spec, sc['backend'])
    root = fedsim.init_state(spec, obj, Rng(sc['init_seed']).sub('init'))
    if sc['backend'] != 'jit':
      probes.inc('non_jit_backend')

    def call(o, state, cohort, key_seed, drop):
      clients = fedsim.plain_clients(pop, ids, cohort, key_seed, spec.get('num_domains'), drop)
      new_state, diag = o.apply(state, clients)
      return new_state, diag

    def fresh():
      return fedsim.build_algorithm(spec, sc['backend'], fresh=True)

  nodes = [root]
  used = {0: 0}
  applies = []        # (node_idx, cohort, key_seed, drop, result bits, diag bits)
  kinds = []
  seen_clients = set()
  evals = 0
  label = f'{tname} backend={sc.get("backend")}'

  def do_apply(o, ni, cohort, key_seed, drop, what):
    nonlocal evals
    state = nodes[ni]
    snap = fedsim.snapshot(state)
    try:
      new_state, aux = call(o, state, cohort, key_seed, drop)
      jax.block_until_ready(jax.tree_util.tree_leaves(new_state))
    except Exception as e:
      import traceback
      tb = traceback.extract_tb(e.__traceback__)
      site = next((f'{f.filename.split("/fedjax/")[-1]}:{f.name}' for f in reversed(tb) if '/fedjax/' in f.filename), '?')
      violation('apply', f'A:apply-raises:{type(e).__name__}@{site}:{tname}', f'{label} {what}: {str(e)[:240]}')
      return None
    evals += 1
    d = fedsim.snapshot_diff(state, snap)
    if d:
      violation('inputs', f'P2:argument-state-changed-by-apply:{tname}', f'{label} {what} on state#{ni}: {d}')
    return new_state, aux

  def run_ops():
   nonlocal obj, seen_clients
   for oi, op in enumerate(sc['ops']):
    kind = op[0]
    if kind == 'retry':
      if not applies:
        continue
      k = op[1] % len(applies)
      ni, cohort, key_seed, drop, bits, aux_bits = applies[k]
      if k != len(applies) - 1:
        probes.inc('retry_after_other_calls')
      faults.inc('duplicate_delivery')
      if tname == 'apfl' and len(getattr(nodes[ni], 'client_states', {})):
        probes.inc('apfl_client_table_nonempty_at_retry')
      res = do_apply(obj, ni, cohort, key_seed, drop, f'op#{oi} retry of apply#{k}')
      kinds.append('retry')
      if res is None:
        continue
      if fedsim.tree_bits(res[0]) != bits:
        violation('purity', f'P1:retry-returns-different-state:{tname}',
                  f'{label}: apply#{k} (state#{ni}, cohort {cohort}) repeated at op#{oi} returned a different state: '
                  f'{_close(res[0], res[0]) or ""} bits {fedsim.tree_bits(res[0])} vs {bits}')
      elif fedsim.tree_bits(res[1]) != aux_bits:
        violation('purity', f'P1:retry-returns-different-diagnostics:{tname}', f'{label}: apply#{k} repeated at op#{oi}')
      continue
    _, ni, cohort, key_seed, drop = op[:5]
    replica = len(op) > 5 and op[5]
    ni = ni % len(nodes)
    cohort = [c for c in cohort if c < sc['n_clients']] or [0]
    drop = [c for c in drop if c in cohort]
    if drop:
      probes.inc('dropout_client')
      faults.inc('client_dropout')
    if used.get(ni, 0) > 0:
      probes.inc('branch_from_old_state')
      faults.inc('state_reused')
    if seen_clients & set(cohort):
      probes.inc('same_client_twice_in_history')
    seen_clients |= set(cohort)
    if kind == 'apply':
      res = do_apply(obj, ni, cohort, key_seed, drop, f'op#{oi} apply')
      kinds.append('apply')
      if res is None:
        break
      used[ni] = used.get(ni, 0) + 1
      applies.append((ni, cohort, key_seed, drop, fedsim.tree_bits(res[0]), fedsim.tree_bits(res[1])))
      if replica:
        # the same call made by freshly built objects on a serialised copy of the state: anything the long-lived
        # objects remember from earlier calls (closure / module caches) shows up as a difference
        import pickle
        probes.inc('replica_with_fresh_objects')
        nodes.append(pickle.loads(pickle.dumps(nodes[ni])))
        r2 = do_apply(fresh(), len(nodes) - 1, cohort, key_seed, drop, f'op#{oi} replica with fresh objects')
        nodes.pop()
        if r2 is not None:
          d = _close(r2[0], res[0], 1e-6) or _close(r2[1], res[1], 1e-6)
          if d:
            violation('purity', f'P3:result-depends-on-history-of-the-algorithm-object:{tname}',
                      f'{label}: op#{oi} state#{ni} + cohort {cohort}: long-lived objects and fresh objects disagree: {d}')
      nodes.append(res[0])
      if tname == 'hyp':
        cids = [int(np.asarray(v['cluster_id'])) for v in res[1].values()]
        if len(set(cids)) < spec['clusters']:
          probes.inc('hyp_cluster_empty_cluster')
    elif kind == 'restart':
      kinds.append('restart')
      faults.inc('restart')
      path = f'/ckpt/state_{oi}'
      try:
        boot.CURRENT.fs = fs
        serialization.save_state(nodes[ni], path)
        restored = serialization.load_state(path)
      except Exception as e:
        violation('restart', f'P3:serialisation-raises:{type(e).__name__}:{tname}', f'{label}: {str(e)[:200]}')
        continue
      d = _close(restored, nodes[ni], 0.0)
      if d:
        violation('restart', f'P3:restored-state-differs-from-saved:{tname}', f'{label}: {d}')
        continue
      obj2 = fresh()
      r1 = do_apply(obj, ni, cohort, key_seed, drop, f'op#{oi} continue original')
      nodes.append(restored)
      r2 = do_apply(obj2, len(nodes) - 1, cohort, key_seed, drop, f'op#{oi} continue restored copy with rebuilt objects')
      nodes.pop()
      if r1 is None or r2 is None:
        break
      probes.inc('restart_then_continue')
      d = _close(r2[0], r1[0], 1e-6)
      if d:
        violation('restart', f'P3:continuing-from-restored-copy-differs:{tname}',
                  f'{label}: state#{ni} + cohort {cohort}: {d}')
      d = _close(r2[1], r1[1], 1e-6)
      if d:
        violation('restart', f'P3:diagnostics-from-restored-copy-differ:{tname}', f'{label}: {d}')
      used[ni] = used.get(ni, 0) + 1
      applies.append((ni, cohort, key_seed, drop, fedsim.tree_bits(r1[0]), fedsim.tree_bits(r1[1])))
      nodes.append(r1[0])
  try:
    run_ops()
  except RuntimeError as e:
    # a buffer of a state that the caller still holds was deleted (donated) by the system under test
    if 'deleted' not in str(e):
      raise
    violation('inputs', f'P2:buffer-of-a-kept-state-deleted:{tname}', f'{label}: {str(e)[:160]}')
  bk = 'pmap' if isinstance(sc.get('backend'), list) else sc.get('backend')
  hkey = hashlib.sha256(repr((tname, bk, kinds)).encode()).hexdigest()[:12]
  nontriv = [hkey] if (probes.get('retry_after_other_calls') or probes.get('branch_from_old_state')
                       or probes.get('restart_then_continue')) else []
  def safe_bits(n):
    try:
      return fedsim.tree_bits(n)
    except Exception:
      return 'unreadable'
  trace.ev('c10', target=tname, kinds=kinds, nodes=[safe_bits(n) for n in nodes], viols=sorted(sigs))
  sample = {'target': tname, 'spec': sc.get('spec') or sc.get('agg'), 'backend': sc.get('backend'), 'ops': sc['ops']}
  return {'digest': trace.digest(), 'evaluations': max(evals, 1), 'violations': viols, 'probes': dict(probes),
          'faults': dict(faults), 'distinct': [hkey], 'nontrivial': nontriv, 'sim_rounds': evals, 'sim_seconds': 0.0,
          'sample': sample}


def _simplify(sc):
  if sc['target'] == 'alg':
    if sc['backend'] != 'jit':
      yield dict(sc, backend='jit')
    sp = sc['spec']
    for k, v in (('rng_variant', False), ('copt', 'sgd'), ('sopt', 'sgd1'), ('model', 'lin'), ('d', 1)):
      if sp.get(k) != v:
        yield dict(sc, spec=dict(sp, **{k: v}))
  for i, op in enumerate(sc['ops']):
    if op[0] != 'retry' and len(op[2]) > 1:
      for j in range(len(op[2])):
        yield dict(sc, ops=sc['ops'][:i] + [[op[0], op[1], op[2][:j] + op[2][j + 1:], op[3], op[4]] + op[5:]] + sc['ops'][i + 1:])
    if op[0] != 'retry' and op[4]:
      yield dict(sc, ops=sc['ops'][:i] + [[op[0], op[1], op[2], op[3], []] + op[5:]] + sc['ops'][i + 1:])


SHRINK = {'list_keys': ('ops',), 'simplifiers': (_simplify,)}
