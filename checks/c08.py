"""C08 - all FederatedData implementations expose the same mapping.

History machine over view operations with interleaved iterator tasks
(DESIGN.md C08).  Implementations: InMemoryFederatedData, SQLiteFederatedData
over a real SQLite file written by the real builder (all derived views share one
connection), SubsetFederatedData over both.
"""
import hashlib
import os

PROP = 'C08'
LEVEL = 'exploration'
RULE = ('A scenario is a logical dataset (2-10 clients; ids with trailing zero bytes, ids that are prefixes of one another, '
        'the empty id; sizes 0-5) plus a recorded history of up to 25 operations: slice (bounds from None, existing ids, '
        'id+\\0, prefixes, b"", b"\\xff"; so empty ranges and start>stop occur), subset (sometimes with an id outside the '
        'view), preprocess_client / preprocess_batch with non-commuting tagged functions, point reads, and iterator tasks '
        '(client_ids, client_sizes, clients, shuffled_clients) opened on any view and advanced in a seeded interleaving so '
        'that several cursors on the shared SQLite connection are in flight. After every op every implementation of the '
        'new view and of its parent is compared with a dict-based reference model through every access path. '
        'evaluations = view-implementation comparisons performed; distinct = hash of (op kinds, emptiness class of each '
        'derived view); non-trivial = the history contains a derived view of a derived view or >= 2 iterators in flight.')
DISTINCT_MEASURE = 'distinct history hashes over (op kind, result class empty/partial/full) sequences'
PROBES = ('empty_view', 'start_gt_stop', 'slice_of_subset', 'subset_of_slice', 'id_with_trailing_zero_selected',
          'prefix_boundary', 'two_cursors_in_flight', 'keyerror_inside_base_but_outside_view', 'subset_with_foreign_id',
          'preprocessors_both_levels', 'iterator_abandoned', 'empty_client_id', 'zero_size_client')
ASSUMPTIONS = [
    'equal iteration ORDER across implementations is not demanded (SQLite iterates by rowid, memory by sorted id); only '
    'determinism per implementation and set equality are',
    'shuffled_clients() on an empty view is not called (it spins forever; no property defines that behaviour)',
    'SQLite files live in a per-run scratch directory under /dev/shm and are removed after the run',
]
REAL_VS_STUB = {
    'real': ['fedjax.InMemoryFederatedData', 'fedjax.SQLiteFederatedData + SQLiteFederatedDataBuilder over a real sqlite3 file',
             'fedjax.SubsetFederatedData', 'ClientDataset / preprocessors / msgpack+zlib serialization', 'sqlite3'],
    'stub': ['the order in which open iterators advance is decided by the seeded scheduler',
             'OS entropy for seed=None is not used (every shuffled_clients call is given a seed)'],
}
INCIDENTAL = ['SQLite builder -> reader round trip (C16 clause 2)', 'ClientDataset.batch / all_examples (C03)']


def plan(tier):
  if tier == 'quick':
    return {'runs': 3200, 'budget_s': 420, 'per_run_timeout_s': 120, 'selftest_runs': 16,
            'selftest_runs_full': 96, 'shrink_budget_s': 60}
  return {'runs': 400000, 'budget_s': 1800, 'per_run_timeout_s': 300, 'selftest_runs': 32,
          'selftest_runs_full': 256, 'shrink_budget_s': 120}


def _ids(g, n):
  stems = [b'a', b'ab', b'abc', b'b', b'b\x00', b'a\x00', b'a\x00\x00', b'\x00', b'\xff', b'c1', b'c10', b'c2',
           b'client', b'client\x00', b'z']
  out = set()
  if g.chance(0.2):
    out.add(b'')
  while len(out) < n:
    out.add(g.choice(stems) if g.chance(0.8) else g.randbytes(g.randint(1, 3)))
  return sorted(out)


def generate(seed, tier):
  from vsim.rng import Rng
  r = Rng(seed).sub('c08')
  g = r.sub('data')
  n = g.randint(2, 10)
  ids = _ids(g, n)
  clients = [{'id': i.hex(), 'n': g.weighted([(0, 2), (1, 2), (2, 2), (3, 2), (5, 1)])} for i in ids]
  o = r.sub('ops')
  bounds = [None, b'', b'\xff'] + ids + [i + b'\x00' for i in ids] + [i[:-1] for i in ids if i]
  ops = []
  nviews = 1
  for _ in range(o.randint(4, 25)):
    k = o.weighted([('slice', 5), ('subset', 3), ('pc', 2), ('pb', 2), ('read', 3), ('open', 4), ('step', 8),
                    ('drain', 1)])
    v = o.randint(0, nviews - 1)
    if k == 'slice':
      a, b = o.choice(bounds), o.choice(bounds)
      ops.append(['slice', v, None if a is None else a.hex(), None if b is None else b.hex()])
      nviews += 1
    elif k == 'subset':
      ops.append(['subset', v, o.random(), o.chance(0.12), o.randint(0, 10**6)])
      nviews += 1
    elif k == 'pc':
      ops.append(['pc', v, o.randint(0, 3)])
      nviews += 1
    elif k == 'pb':
      ops.append(['pb', v, o.randint(0, 3)])
      nviews += 1
    elif k == 'read':
      ops.append(['read', v, o.randint(0, 10**6)])
    elif k == 'open':
      ops.append(['open', v, o.choice(['client_ids', 'client_sizes', 'clients', 'clients', 'shuffled', 'get_clients', 'get_clients']),
                  o.randint(0, 3), o.randint(1, 12), o.randint(0, 10**6)])
    elif k == 'step':
      ops.append(['step', o.randint(0, 5), o.randint(1, 3)])
    else:
      ops.append(['drain', o.randint(0, 5)])
  return {'clients': clients, 'data_seed': g.randint(0, 10**6), 'ops': ops,
          'insert_order_seed': g.randint(0, 10**6), 'n_txn': g.randint(1, 3),
          'root_subset_frac': g.choice([1.0, 1.0, 0.6])}


# ------------------------------------------------------------------ helpers
def _cfn(k):
  import numpy as np
  if k == 3:
    def f(cid, ex):
      out = dict(ex)
      out['c3'] = np.full((len(ex['y']),), len(cid), np.int32)
      return out
    return f

  def f(cid, ex):
    out = dict(ex)
    out['x'] = (ex['x'] * np.float32(2) + np.float32(k + len(cid))).astype(np.float32)
    return out
  return f


def _bfn(k):
  import numpy as np
  if k == 3:
    def f(ex):
      out = dict(ex)
      out['b3'] = (ex['y'] * 2 + 1).astype(np.int32)
      return out
    return f

  def f(ex):
    out = dict(ex)
    out['x'] = (ex['x'] * np.float32(3) - np.float32(k)).astype(np.float32)
    return out
  return f


def _ex_equal(a, b):
  import numpy as np
  if list(a.keys()) != list(b.keys()) and sorted(a.keys()) != sorted(b.keys()):
    return f'features {sorted(a)} != {sorted(b)}'
  for k in a:
    x, y = np.asarray(a[k]), np.asarray(b[k])
    if x.dtype != y.dtype or x.shape != y.shape or x.tobytes() != y.tobytes():
      return f'feature {k}: {x.dtype}{x.shape} {x.tolist()} != {y.dtype}{y.shape} {y.tolist()}'
  return None


class _Node:
  def __init__(self, ids, cfns, bfns, impls, parent, how):
    self.ids, self.cfns, self.bfns = ids, cfns, bfns
    self.impls = impls          # name -> fd
    self.parent, self.how = parent, how
    self.depth = 0 if parent is None else parent.depth + 1


_SCRATCH_N = [0]


def execute(sc):
  import numpy as np
  import fedjax
  from fedjax.core import sqlite_federated_data as sfd
  from fedjax.core import federated_data as fdm
  from vsim.rng import Rng
  from vsim.trace import Trace, Counters
  trace = Trace(keep=False)
  probes, faults = Counters(), Counters()
  viols, sigs = [], set()
  evals = [0]

  def violation(clause, sig, msg):
    if sig not in sigs:
      sigs.add(sig)
      viols.append({'clause': clause, 'signature': sig, 'message': msg})

  # ---- logical dataset
  rs = np.random.RandomState(sc['data_seed'])
  raw = {}
  for c in sc['clients']:
    cid = bytes.fromhex(c['id'])
    n = c['n']
    raw[cid] = {'x': rs.randint(-4, 5, size=(n, 2)).astype(np.float32), 'y': rs.randint(0, 9, size=(n,)).astype(np.int32)}
    if n == 0:
      probes.inc('zero_size_client')
    if cid == b'':
      probes.inc('empty_client_id')
  universe = sorted(raw)
  _SCRATCH_N[0] += 1
  path = f'/dev/shm/vsim-c08-{os.getpid()}-{_SCRATCH_N[0]}.sqlite'
  if os.path.exists(path):
    os.remove(path)

  def expected_examples(node, cid):
    ex = {k: v.copy() for k, v in raw[cid].items()}
    for k in node.cfns:
      ex = _cfn(k)(cid, ex)
    return ex

  def expected_batchlevel(node, ex):
    for k in node.bfns:
      ex = _bfn(k)(ex)
    return ex

  try:
    order = Rng(sc['insert_order_seed']).sub('ins').shuffle(universe)
    with sfd.SQLiteFederatedDataBuilder(path) as builder:
      nt = sc['n_txn']
      for t in range(nt):
        part = order[t::nt]
        builder.add_many((cid, raw[cid]) for cid in part)
    mem = fedjax.InMemoryFederatedData({cid: raw[cid] for cid in universe})
    sql = sfd.SQLiteFederatedData.new(path)
    g0 = Rng(sc['insert_order_seed']).sub('rootsub')
    root_ids = [i for i in universe if g0.chance(sc['root_subset_frac'])] or universe[:1]
    if sc['root_subset_frac'] == 1.0:
      root_ids = list(universe)
    root = _Node(set(universe), [], [], {'mem': mem, 'sql': sql}, None, 'root')
    nodes = [root]
    sub = _Node(set(root_ids), [], [], {'sub_mem': fdm.SubsetFederatedData(mem, root_ids),
                                        'sub_sql': fdm.SubsetFederatedData(sql, root_ids)}, None, 'root-subset')
    nodes.append(sub)

    # ---- comparison of one implementation of one node with the model
    def check_impl(node, name, fd, rng, label):
      evals[0] += 1
      ids = sorted(node.ids)
      tag = f'{name}'
      kind = name.split('_')[0] if not name.startswith('sub') else 'subset'

      def bad(clause, what, msg):
        violation(clause, f'V:{what}:{kind}', f'{label} [{tag}]: {msg}')
      try:
        n = fd.num_clients()
        if n != len(ids):
          bad('count', 'num_clients-differs-from-model', f'num_clients()={n}, model has {len(ids)}: {ids}')
        got_ids = list(fd.client_ids())
        if sorted(got_ids) != ids:
          bad('ids', 'client_ids-differs-from-model', f'client_ids()={got_ids}, model {ids}')
        if any(type(i) is not bytes for i in got_ids):
          bad('ids', 'client_id-not-exact-bytes', f'{got_ids}')
        sizes = list(fd.client_sizes())
        want_sizes = {cid: len(raw[cid]['y']) for cid in ids}
        if sorted(sizes) != sorted(want_sizes.items()):
          bad('sizes', 'client_sizes-differs-from-model', f'client_sizes()={sizes}, model {sorted(want_sizes.items())}')
        p1 = [(cid, ds) for cid, ds in fd.clients()]
        p2 = [cid for cid, _ in fd.clients()]
        if [c for c, _ in p1] != p2:
          bad('order', 'iteration-order-not-deterministic', f'two clients() passes: {[c for c, _ in p1]} then {p2}')
        if sorted(c for c, _ in p1) != ids:
          bad('iteration', 'clients-differs-from-model', f'clients() ids {[c for c, _ in p1]}, model {ids}')
        for cid, ds in p1:
          if cid in node.ids:
            check_dataset(node, cid, ds, bad, 'clients()')
        for cid in ids:
          if fd.client_size(cid) != want_sizes[cid]:
            bad('sizes', 'client_size-differs-from-model', f'client_size({cid})={fd.client_size(cid)}')
          check_dataset(node, cid, fd.get_client(cid), bad, 'get_client')
          if cid.endswith(b'\x00'):
            probes.inc('id_with_trailing_zero_selected')
        outside = [i for i in universe if i not in node.ids] + [b'nope', b'a\x00\x00\x00']
        outside = [i for i in outside if i not in node.ids]
        for cid in outside[:6]:
          for fn_name in ('get_client', 'client_size'):
            try:
              getattr(fd, fn_name)(cid)
              bad('keyerror', f'{fn_name}-returns-for-id-outside-view', f'{fn_name}({cid}) returned although the view is {ids}')
            except KeyError:
              if cid in raw:
                probes.inc('keyerror_inside_base_but_outside_view')
        if ids:
          req = rng.sample(ids, min(len(ids), 3)) + [rng.choice(ids)]
          # the request is an Iterable: a list, or a one-shot iterator
          got = list(fd.get_clients(iter(req) if rng.chance(0.5) else req))
          if [c for c, _ in got] != req:
            bad('bulk-get', 'get_clients-not-in-request-order', f'get_clients({req}) gave {[c for c, _ in got]}')
          for cid, ds in got:
            check_dataset(node, cid, ds, bad, 'get_clients')
          if outside:
            req2 = [ids[0], outside[0]]
            try:
              list(fd.get_clients(req2))
              bad('keyerror', 'get_clients-returns-for-id-outside-view', f'get_clients({req2}) did not raise')
            except KeyError:
              pass
          # shuffled passes: windows of n are permutations; a seed reproduces the stream
          buf = rng.choice([1, 2, len(ids), len(ids) + 3])
          seed = rng.randint(0, 10**6)
          it = fd.shuffled_clients(buf, seed)
          s1 = [next(it)[0] for _ in range(2 * len(ids))]
          it2 = fd.shuffled_clients(buf, seed)
          s2 = [next(it2)[0] for _ in range(2 * len(ids))]
          for w in (s1[:len(ids)], s1[len(ids):]):
            if sorted(w) != ids:
              bad('shuffle', 'shuffled-pass-is-not-a-permutation-of-the-view', f'window {w}, view {ids} (buffer {buf})')
          if s1 != s2:
            bad('shuffle', 'shuffled-stream-not-reproducible-for-fixed-seed', f'{s1} vs {s2}')
          it.close()
          it2.close()
        else:
          probes.inc('empty_view')
      except Exception as e:
        import traceback
        tb = traceback.extract_tb(e.__traceback__)
        site = next((f'{f.filename.split("/fedjax/")[-1]}:{f.name}' for f in reversed(tb) if '/fedjax/' in f.filename), '?')
        violation('access', f'V:access-raises:{type(e).__name__}@{site}:{kind}',
                  f'{label} [{tag}] view {ids}: {type(e).__name__}: {str(e)[:200]}')

    def check_dataset(node, cid, ds, bad, via):
      want = expected_examples(node, cid)
      wall = expected_batchlevel(node, {k: v.copy() for k, v in want.items()})
      if len(ds) != len(want['y']):
        bad('examples', 'dataset-length-differs', f'{via} {cid}: len {len(ds)} != {len(want["y"])}')
        return
      err = _ex_equal(ds.all_examples(), wall)
      if err:
        bad('examples', 'examples-differ-from-model', f'{via} {cid} (client fns {node.cfns}, batch fns {node.bfns}): {err}')
        return
      n = len(want['y'])
      pos = 0
      for b in ds.batch(batch_size=2):
        m = len(b['y'])
        wb = expected_batchlevel(node, {k: v[pos:pos + m] for k, v in want.items()})
        err = _ex_equal(b, wb)
        if err:
          bad('examples', 'batches-differ-from-model', f'{via} {cid} batch at {pos}: {err}')
          return
        pos += m
      if pos != n:
        bad('examples', 'batches-differ-from-model', f'{via} {cid}: batches cover {pos} of {n} rows')

    def check_node(node, rng, label):
      for name, fd in sorted(node.impls.items()):
        check_impl(node, name, fd, rng, label)

    def derive(parent, how, ids, cfns, bfns, make, expect_error=None):
      """Applies `make` to every implementation of parent; returns new node or None."""
      impls, errors = {}, {}
      for name, fd in sorted(parent.impls.items()):
        try:
          impls[name] = make(fd)
        except Exception as e:
          errors[name] = e
      label = f'{how} on view#{nodes.index(parent)}'
      if expect_error is not None:
        for name in sorted(parent.impls):
          if name not in errors:
            violation('derive', f'V:invalid-subset-accepted:{_kind(name)}', f'{label} [{name}] did not raise {expect_error.__name__}')
          elif not isinstance(errors[name], expect_error):
            violation('derive', f'V:derivation-raises:{type(errors[name]).__name__}:{_kind(name)}',
                      f'{label} [{name}]: {errors[name]!r}')
        return None
      for name, e in sorted(errors.items()):
        import traceback
        tb = traceback.extract_tb(e.__traceback__)
        site = next((f'{f.filename.split("/fedjax/")[-1]}:{f.name}' for f in reversed(tb) if '/fedjax/' in f.filename), '?')
        violation('derive', f'V:derivation-raises:{type(e).__name__}@{site}:{_kind(name)}',
                  f'{label} [{name}] -> model view {sorted(ids)}: {type(e).__name__}: {str(e)[:160]}')
      if not impls:
        return None
      node = _Node(set(ids), list(cfns), list(bfns), impls, parent, how)
      nodes.append(node)
      return node

    def _kind(name):
      return 'subset' if name.startswith('sub') else name

    hist = []
    tasks = []
    max_depth = [0]
    rng = Rng(sc['data_seed']).sub('exec')
    check_node(root, rng.sub('root'), 'root')
    check_node(sub, rng.sub('rootsub'), 'root-subset')

    def finish_task(t):
      if t['state'] != 'open':
        return
      t['state'] = 'done'
      node = t['node']
      ids = sorted(node.ids)
      kind = t['kind']
      got = t['out']
      lab = f'iterator {kind} on view#{nodes.index(node)} [{t["name"]}] (interleaved with {t["others"]} other cursors)'
      k = _kind(t['name'])
      if kind == 'get_clients':
        keys = [g[0] for g in got]
        if keys != t['req']:
          violation('bulk-get', f'V:interleaved-get_clients-not-in-request-order:{k}', f'{lab}: requested {t["req"]}, got {keys}')
        for cid, ds in got:
          if cid in node.ids:
            check_dataset(node, cid, ds, lambda c, w, m: violation(c, f'V:{w}:{k}', f'{lab}: {m}'), 'interleaved get_clients()')
      elif kind in ('client_ids', 'client_sizes', 'clients'):
        keys = [g[0] if isinstance(g, tuple) else g for g in got]
        if sorted(keys) != ids:
          violation('iteration', f'V:interleaved-iterator-differs-from-model:{kind}:{k}', f'{lab}: got {keys}, model {ids}')
        alone = list(getattr(t['fd'], kind)())
        akeys = [a[0] if isinstance(a, tuple) else a for a in alone]
        if akeys != keys:
          violation('order', f'V:interleaved-iterator-differs-from-running-alone:{kind}:{k}', f'{lab}: {keys} vs alone {akeys}')
        if kind == 'client_sizes':
          want = {cid: len(raw[cid]['y']) for cid in ids}
          if dict(got) != want:
            violation('sizes', f'V:interleaved-iterator-differs-from-model:{kind}:{k}', f'{lab}: {got}')
        if kind == 'clients':
          for cid, ds in got:
            if cid in node.ids:
              check_dataset(node, cid, ds, lambda c, w, m: violation(c, f'V:{w}:{k}', f'{lab}: {m}'), 'interleaved clients()')
      else:
        keys = [g[0] for g in got]
        n = len(ids)
        for i in range(0, len(keys) - n + 1, n):
          if sorted(keys[i:i + n]) != ids:
            violation('shuffle', f'V:shuffled-pass-is-not-a-permutation-of-the-view:{k}', f'{lab}: window {keys[i:i+n]} view {ids}')
        it = t['fd'].shuffled_clients(t['buf'], t['seed'])
        alone = [next(it)[0] for _ in range(len(keys))]
        it.close()
        if alone != keys:
          violation('shuffle', f'V:interleaved-iterator-differs-from-running-alone:shuffled:{k}', f'{lab}: {keys} vs alone {alone}')

    def step_task(t, nsteps):
      for _ in range(nsteps):
        if t['state'] != 'open':
          return
        if t['kind'] == 'shuffled' and len(t['out']) >= t['limit']:
          t['it'].close()
          finish_task(t)
          return
        try:
          item = next(t['it'])
        except StopIteration:
          finish_task(t)
          return
        except Exception as e:
          violation('access', f'V:iterator-raises:{type(e).__name__}:{_kind(t["name"])}', f'{t["kind"]}: {e!r}')
          t['state'] = 'error'
          return
        t['out'].append(item)

    for oi, op in enumerate(sc['ops']):
      kind = op[0]
      if kind in ('slice', 'subset', 'pc', 'pb', 'read', 'open'):
        parent = nodes[op[1] % len(nodes)]
      lab = f'op#{oi} {kind}'
      if kind == 'slice':
        a = None if op[2] is None else bytes.fromhex(op[2])
        b = None if op[3] is None else bytes.fromhex(op[3])
        ids = {i for i in parent.ids if (a is None or a <= i) and (b is None or i < b)}
        if a is not None and b is not None and a > b:
          probes.inc('start_gt_stop')
        if any(i.startswith(x) and i != x for x in (a, b) if x for i in parent.ids):
          probes.inc('prefix_boundary')
        if any(n.startswith('sub') for n in parent.impls) or 'subset' in _lineage(parent):
          probes.inc('slice_of_subset')
        node = derive(parent, f'slice({a},{b})', ids, parent.cfns, parent.bfns, lambda fd: fd.slice(a, b))
      elif kind == 'subset':
        g = Rng(op[4]).sub('subset')
        pool = sorted(parent.ids)
        ids = {i for i in pool if g.chance(op[2])}
        foreign = op[3]
        if foreign:
          extra = [i for i in universe if i not in parent.ids] + [b'ghost']
          ids = set(ids) | {extra[0]}
          probes.inc('subset_with_foreign_id')
          derive(parent, f'subset({sorted(ids)})', ids, parent.cfns, parent.bfns,
                 lambda fd: fdm.SubsetFederatedData(fd, sorted(ids)), expect_error=ValueError)
          hist.append(('subset-bad', 'error'))
          continue
        if 'slice' in _lineage(parent):
          probes.inc('subset_of_slice')
        node = derive(parent, f'subset({sorted(ids)})', ids, parent.cfns, parent.bfns,
                      lambda fd: fdm.SubsetFederatedData(fd, sorted(ids)))
      elif kind == 'pc':
        node = derive(parent, f'preprocess_client(f{op[2]})', parent.ids, parent.cfns + [op[2]], parent.bfns,
                      lambda fd: fd.preprocess_client(_cfn(op[2])))
      elif kind == 'pb':
        node = derive(parent, f'preprocess_batch(g{op[2]})', parent.ids, parent.cfns, parent.bfns + [op[2]],
                      lambda fd: fd.preprocess_batch(_bfn(op[2])))
      elif kind == 'read':
        check_node(parent, Rng(op[2]).sub('read'), lab)
        hist.append(('read', _cls(parent, root)))
        continue
      elif kind == 'open':
        names = sorted(parent.impls)
        if not names:
          continue
        name = names[op[3] % len(names)]
        fd = parent.impls[name]
        k = op[2]
        if k == 'shuffled' and not parent.ids:
          continue
        live = [t for t in tasks if t['state'] == 'open']
        if len(live) >= 6:
          continue
        t = {'node': parent, 'name': name, 'fd': fd, 'kind': k, 'out': [], 'state': 'open', 'others': len(live),
             'buf': op[4], 'seed': op[5], 'limit': 2 * max(1, len(parent.ids)) + 1}
        if k == 'get_clients':
          if not parent.ids:
            continue
          gq = Rng(op[5]).sub('req')
          t['req'] = [gq.choice(sorted(parent.ids)) for _ in range(gq.randint(1, 2 * len(parent.ids)))]
          t['it'] = fd.get_clients(iter(list(t['req'])) if gq.chance(0.5) else list(t['req']))
        else:
          t['it'] = fd.shuffled_clients(op[4], op[5]) if k == 'shuffled' else getattr(fd, k)()
        tasks.append(t)
        if live:
          probes.inc('two_cursors_in_flight')
          for l_ in live:
            l_['others'] = max(l_['others'], 1)
        hist.append(('open', k))
        continue
      elif kind == 'step':
        live = [t for t in tasks if t['state'] == 'open']
        if live:
          step_task(live[op[1] % len(live)], op[2])
          faults.inc('cursor_interleaving_step')
        continue
      elif kind == 'drain':
        live = [t for t in tasks if t['state'] == 'open']
        if live:
          step_task(live[op[1] % len(live)], 10**6)
        continue
      else:
        continue
      if node is not None:
        max_depth[0] = max(max_depth[0], node.depth)
        if node.cfns and node.bfns:
          probes.inc('preprocessors_both_levels')
        check_node(node, rng.sub('n', oi), lab)
        # deriving a view never changes the dataset it was derived from
        check_node(parent, rng.sub('p', oi), lab + ' (parent re-check)')
        hist.append((kind, _cls(node, parent)))
    abandoned = 0
    for t in tasks:
      if t['state'] == 'open':
        if Rng(sc['data_seed']).sub('abandon', tasks.index(t)).chance(0.4):
          t['it'].close() if hasattr(t['it'], 'close') else None
          t['state'] = 'abandoned'
          abandoned += 1
          probes.inc('iterator_abandoned')
          faults.inc('cursor_abandoned_midway')
        else:
          step_task(t, 10**6)
    # after abandoned cursors every view must still be readable
    if abandoned:
      check_node(root, rng.sub('final'), 'after abandoned cursors')
    sql._connection.close()
  finally:
    try:
      os.remove(path)
    except OSError:
      pass
  hkey = hashlib.sha256(repr(hist).encode()).hexdigest()[:12]
  nontriv = [hkey] if (max_depth[0] >= 2 or probes.get('two_cursors_in_flight')) else []
  trace.ev('c08', hist=[list(h) for h in hist], viols=sorted(sigs), evals=evals[0],
           tasks=[(t['kind'], t['name'], t['state'], len(t['out'])) for t in tasks])
  sample = {'ids': [c['id'] for c in sc['clients']], 'sizes': [c['n'] for c in sc['clients']],
            'ops': sc['ops'][:20], 'history_classes': [list(h) for h in hist][:20], 'views': len(nodes)}
  return {'digest': trace.digest(), 'evaluations': evals[0], 'violations': viols, 'probes': dict(probes),
          'faults': dict(faults), 'distinct': [hkey], 'nontrivial': nontriv, 'sim_rounds': 0, 'sim_seconds': 0.0,
          'sample': sample}


def _lineage(node):
  out = []
  while node is not None:
    out.append(node.how.split('(')[0])
    node = node.parent
  return out


def _cls(node, parent):
  if not node.ids:
    return 'empty'
  if node.ids == parent.ids:
    return 'full'
  return 'partial'


def _simplify(sc):
  # drop one client at a time
  for i in range(len(sc['clients'])):
    if len(sc['clients']) > 1:
      yield dict(sc, clients=sc['clients'][:i] + sc['clients'][i + 1:])
  for i, c in enumerate(sc['clients']):
    if c['n'] > 1:
      yield dict(sc, clients=sc['clients'][:i] + [dict(c, n=1)] + sc['clients'][i + 1:])
  if sc['n_txn'] > 1:
    yield dict(sc, n_txn=1)


SHRINK = {'list_keys': ('ops',), 'simplifiers': (_simplify,)}
