"""C19 - downloaded and decompressed cache files appear only when complete.

Real fedjax.datasets.downloads (maybe_download, maybe_lzma_decompress,
validate_file), real requests/urllib3/lzma/shutil on SimFS + SimNet + SimClock.
"""
import hashlib
import posixpath

PROP = 'C19'
LEVEL = 'fault_enumeration'
RULE = ('A scenario is one cache configuration (payload size class around the 256 KiB transfer block / the 64 KiB copy '
        'buffer, compressed or not, compressibility, stale .partial, pre-cached files, low-level read chunking, validation '
        'on/off). mode=sweep: a fault-free golden call numbers file-system effects, network body reads and reads of the '
        '.lzma file; then EVERY single fault is executed: crash after each effect x write-buffer prefix menu, ENOSPC/EIO on '
        'each effect (process continues), connection reset / premature EOF at every block boundary +-1 and mid-block, HTTP '
        '503/404, connection refused, EIO on each read of the compressed file; each followed by a fault-free call and a third '
        'call (reuse). mode=seq: 2-4 interruptions of mixed kinds in successive calls, then fault-free calls. evaluations = '
        'number of workload calls executed. Distinct = (size class, compressed, stage, effect kind, fault kind, position class); '
        'non-trivial = the fault fired while a transfer or decompression was in flight (at least one byte buffered or written).')
DISTINCT_MEASURE = 'distinct (size-class, compressed, stage, effect-kind, fault-kind, position-class) tuples'
PROBES = ('crash_mid_block_write', 'crash_between_last_write_and_rename', 'enospc_during_decompress',
          'stale_partial_present', 'reuse_without_network', 'empty_payload', 'premature_eof',
          'connection_reset', 'http_error', 'read_error_on_compressed', 'short_reads',
          'repaired_after_fault', 'precached_compressed_only')
ASSUMPTIONS = [
    'process-crash model: rename is atomic and durable at once; power loss is not modelled',
    'the origin sends a correct content-length (downloads.py documents reliance on it); wrong/missing content-length is not injected',
    'builtin open / os / lzma.open of fedjax.datasets.downloads are bound to SimFS shims; any prefix of the bytes written to an '
    'open file may be what survives a crash',
    'downloads.log is silenced (stderr noise only)',
]
REAL_VS_STUB = {
    'real': ['fedjax.datasets.downloads.maybe_download / maybe_lzma_decompress / validate_file / progress',
             'requests (Session, Response, raise_for_status)', 'urllib3.response.HTTPResponse (content-length enforcement)',
             'lzma codec (LZMAFile over the simulated file)', 'shutil.copyfileobj', 'hashlib'],
    'stub': ['sockets/TLS -> vsim.simnet raw body reader under HTTPAdapter.send', 'open/os.path.exists/os.rename/os.makedirs/'
             'lzma.open -> vsim.simfs', 'time.time -> SimClock'],
}
NOT_EXPLORED = ['cifar100 third stage (TFF sqlite -> fedjax sqlite conversion through sqlite3 on a real path) is neither a '
                'download nor a decompression and is outside this check']

CACHE = '/cache'
BLOCK = 1 << 18
COPY = 64 * 1024


def plan(tier):
  if tier == 'quick':
    return {'runs': 320, 'budget_s': 420, 'per_run_timeout_s': 300, 'selftest_runs': 8,
            'selftest_runs_full': 48, 'shrink_budget_s': 60}
  return {'runs': 60000, 'budget_s': 1800, 'per_run_timeout_s': 900, 'selftest_runs': 16,
          'selftest_runs_full': 96, 'shrink_budget_s': 120}


SIZES_RAW = [0, 1, BLOCK - 1, BLOCK, BLOCK + 1, BLOCK * 7 // 2, 5000, 2 * BLOCK, 3 * BLOCK]
SIZES_DEC = [0, 1, COPY - 1, COPY, COPY + 1, 3 * COPY, 200000, 5000]


def generate(seed, tier):
  from vsim.rng import Rng
  r = Rng(seed).sub('c19')
  g = r.sub('cfg')
  compressed = g.chance(0.6)
  cfg = {
      'compressed': compressed,
      'size': g.choice(SIZES_DEC if compressed else SIZES_RAW),
      'entropy': g.choice(['random', 'low']) if compressed else 'random',
      'data_seed': g.randint(0, 10**6),
      'stale_partial': g.choice(['none', 'none', 'garbage', 'prefix', 'longer']),
      'precached': g.weighted([('none', 6), ('compressed', 2 if compressed else 0), ('all', 1)]),
      'chunks': g.choice([None, None, [1000], [BLOCK // 2 + 1, 7], [65536], [1]]) ,
      'validate': g.chance(0.5),
      'range_support': g.chance(0.5),
      'name': g.choice(['data.sqlite', 'a.b.bin', 'x']) + ('.lzma' if compressed else ''),
  }
  if cfg['chunks'] == [1] and cfg['size'] > 70000:
    cfg['chunks'] = [4096]
  mode = 'sweep' if g.chance(0.55) else 'seq'
  sc = {'config': cfg, 'mode': mode, 'faults': []}
  if mode == 'seq':
    f = r.sub('faults')
    for _ in range(f.randint(2, 4)):
      kind = f.weighted([('crash', 4), ('enospc', 2), ('eio', 1), ('reset', 2), ('eof', 2),
                         ('http_status', 1), ('connect', 1), ('read_eio', 1 if compressed else 0)])
      sc['faults'].append({'kind': kind, 'frac': f.random(),
                           'prefix': f.choice(['none', 'one', 'half', 'allbut1', 'blk', 'all']),
                           'partial': f.choice(['none', 'half', 'all']),
                           'status': f.choice([503, 404, 500])})
  return sc


# ------------------------------------------------------------------ system
_PAYLOADS = {}


def _payload(cfg):
  """(download_bytes, final_bytes) - final = decompressed content if compressed."""
  import lzma
  import numpy as np
  key = (cfg['compressed'], cfg['size'], cfg['entropy'], cfg['data_seed'])
  if key not in _PAYLOADS:
    rs = np.random.RandomState(cfg['data_seed'])
    n = cfg['size']
    if cfg['entropy'] == 'random':
      data = rs.bytes(n)
    else:
      data = bytes(rs.randint(0, 3, size=n).astype('uint8'))
    if cfg['compressed']:
      dl = lzma.compress(data, preset=0)
    else:
      dl = data
    if len(_PAYLOADS) > 64:
      _PAYLOADS.clear()
    _PAYLOADS[key] = (dl, data)
  return _PAYLOADS[key]


class _OsPath:
  def __init__(self, fs):
    self._fs = fs

  def exists(self, p):
    return self._fs.exists(p)

  def isfile(self, p):
    return self._fs.norm(p) in self._fs.files

  def isdir(self, p):
    return self._fs.isdir(p)

  def getsize(self, p):
    q = self._fs.norm(p)
    if q not in self._fs.files:
      raise FileNotFoundError(2, 'No such file or directory', q)
    return len(self._fs.files[q])

  def __getattr__(self, name):   # join, basename, splitext, dirname, expanduser, ...
    return getattr(posixpath, name)


class _Os:
  """Module-like object bound over downloads.os."""

  def __init__(self, fs):
    self._fs = fs
    self.path = _OsPath(fs)
    self.sep = '/'

  def makedirs(self, p, exist_ok=False, mode=0o777):
    self._fs.makedirs(p, exist_ok=exist_ok)

  def rename(self, s, d):
    self._fs.rename(s, d, overwrite=True)

  replace = rename

  def remove(self, p):
    self._fs.remove(p)

  unlink = remove

  def listdir(self, p):
    return self._fs.listdir(p)

  def fsync(self, fd):
    return None

  def getpid(self):
    return 4242

  def fspath(self, p):
    return str(p)


class _Lzma:
  def __init__(self, fs):
    self._fs = fs
    import lzma
    self._lzma = lzma

  def open(self, path, mode='rb', **kw):
    if 'r' in mode:
      return self._lzma.LZMAFile(self._fs.open(path, 'rb'), 'rb')
    return self._lzma.LZMAFile(self._fs.open(path, 'wb'), 'wb')

  def __getattr__(self, name):
    return getattr(self._lzma, name)


def _bind(fs, net):
  """Binds the seams of fedjax.datasets.downloads to this run's world."""
  from vsim import boot, simnet
  from fedjax.datasets import downloads
  downloads.os = _Os(fs)
  def _open(p, mode='r', buffering=-1, *a, **k):
    return fs.open(p, mode, raw=(buffering == 0))
  downloads.open = _open
  downloads.lzma = _Lzma(fs)
  downloads.time = boot.TIME_SHIM
  downloads.log = lambda *a, **k: None
  simnet.install(net)
  return downloads


def _stage_of(path, cfg):
  base = posixpath.basename(path)
  if base.startswith(cfg['name']):
    return 'download'
  return 'decompress'


def _finals(cfg):
  """final cache path -> expected complete content."""
  dl, data = _payload(cfg)
  out = {f'{CACHE}/{cfg["name"]}': dl}
  if cfg['compressed']:
    out[f'{CACHE}/{cfg["name"][:-5]}'] = data
  return out


def _fresh(cfg):
  from vsim import boot, simnet
  fs, clock = boot.new_world()
  net = simnet.SimNet()
  dl, data = _payload(cfg)
  url = 'https://origin.example/ds/' + cfg['name']
  net.origins[url] = dl
  net.chunks = cfg['chunks']
  net.range_support = cfg.get('range_support', False)
  name = f'{CACHE}/{cfg["name"]}'
  if cfg['stale_partial'] != 'none' or cfg['precached'] != 'none':
    fs.dirs.add(CACHE)
  if cfg['stale_partial'] == 'garbage':
    fs.files[name + '.partial'] = b'stale garbage'
  elif cfg['stale_partial'] == 'prefix':
    fs.files[name + '.partial'] = dl[:len(dl) // 2]
  elif cfg['stale_partial'] == 'longer':
    fs.files[name + '.partial'] = dl + b'trailing-bytes-from-an-older-larger-file' * 50
  if cfg['precached'] in ('compressed', 'all'):
    fs.files[name] = dl
  if cfg['precached'] == 'all' and cfg['compressed']:
    fs.files[name[:-5]] = data
  return fs, net, url


class _Viol:
  def __init__(self):
    self.items, self.sigs = [], set()

  def add(self, clause, signature, message, detail=None):
    if signature in self.sigs:
      return
    self.sigs.add(signature)
    v = {'clause': clause, 'signature': signature, 'message': message}
    if detail is not None:
      v['detail'] = detail
    self.items.append(v)


def _call(cfg, fs, net, url, fs_plan, net_plan, read_plan, viol, ctx, trace, detail=None):
  """One workload call in one process. Returns dict(status, returned paths...)."""
  from vsim import simfs
  import requests
  import urllib3
  downloads = _bind(fs, net)
  finals = _finals(cfg)
  fs.reboot()
  fs.set_plan(fs_plan or {})
  fs.read_faults = {int(k): v for k, v in (read_plan or {}).items()}
  fs.counters['reads'] = 0
  net.plan = {int(k): v for k, v in (net_plan or {}).items()}
  n_req0 = len(net.requests)
  net.requests_this_call = 0

  def observer(fs_, idx, kind, path):
    # I1: a final cache path is absent or complete and correct - after every effect
    for p, want in finals.items():
      got = fs_.files.get(p)
      if got is not None and got != want:
        st = _stage_of(p, cfg)
        viol.add('I1', f'I1:incomplete-file-under-final-name:{st}',
                 f'{ctx}: {p} holds {len(got)} of {len(want)} bytes after effect {idx}:{kind}:{path}', detail)
  fs.observer = observer
  res = {'status': 'done'}
  dl, data = _payload(cfg)
  try:
    path = downloads.maybe_download(url, CACHE)
    res['path'] = path
    if cfg['validate']:
      downloads.validate_file(path, len(dl), hashlib.sha256(dl).hexdigest())
    if cfg['compressed']:
      dpath = downloads.maybe_lzma_decompress(path)
      res['dpath'] = dpath
      if cfg['validate']:
        downloads.validate_file(dpath, len(data), hashlib.sha256(data).hexdigest())
  except simfs.SimCrash as e:
    res = {'status': 'crashed', 'where': str(e)}
  except (OSError, requests.exceptions.RequestException, urllib3.exceptions.HTTPError,
          ValueError, EOFError, Exception) as e:   # the call failed visibly - allowed under faults
    import traceback
    tb = traceback.extract_tb(e.__traceback__)
    site = next((f.name for f in reversed(tb) if 'fedjax/datasets/downloads.py' in f.filename), '?')
    res = {'status': 'raised', 'error': type(e).__name__, 'site': site, 'msg': str(e)[:200]}
  finally:
    fs.observer = None
  # post-state check as well (covers crash states, where no further effect runs)
  for p, want in finals.items():
    got = fs.files.get(p)
    if got is not None and got != want:
      st = _stage_of(p, cfg)
      viol.add('I1', f'I1:incomplete-file-under-final-name:{st}',
               f'{ctx}: after the call ({res["status"]}) {p} holds {len(got)} of {len(want)} bytes', detail)
  if res['status'] == 'done':
    # whatever a call RETURNS must be complete and correct
    for key, want in (('path', dl), ('dpath', data)):
      if key in res:
        got = fs.files.get(fs.norm(res[key]))
        if got != want:
          viol.add('H1', f'H1:call-returned-wrong-or-truncated-file:{key}',
                   f'{ctx}: returned {res[key]} with {None if got is None else len(got)} bytes, want {len(want)}', detail)
  res['requests'] = len(net.requests) - n_req0
  res['effects'] = list(fs.effect_log)
  res['net_reads'] = net.counters.get('body_reads', 0)
  res['file_reads'] = fs.counters.get('reads', 0)
  res['fired'] = list(fs.fired) + list(net.fired)
  res['writes'] = list(fs.write_log)
  trace.ev('call', ctx=ctx, status=res['status'], err=res.get('error'), req=res['requests'],
           n_eff=len(res['effects']),
           files=sorted((p, hashlib.sha256(d).hexdigest()[:8]) for p, d in fs.files.items()))
  return res


def _after_faults(cfg, fs, net, url, viol, probes, trace, ctx, detail, counter):
  """Fault-free calls after the faults stopped: H1 (repair, bounded), H2 (reuse)."""
  had_final = {p: p in fs.files for p in _finals(cfg)}
  fs.fired, net.fired = [], []
  res = _call(cfg, fs, net, url, None, None, None, viol, ctx + ' / fault-free call', trace, detail)
  counter[0] += 1
  if res['status'] != 'done':
    viol.add('H1', f"H1:call-after-faults-fails:{res.get('error')}@{res.get('site')}",
             f"{ctx}: the fault-free call after the interruption failed: {res.get('error')} {res.get('msg')}", detail)
    return
  probes.inc('repaired_after_fault')
  need = 0 if had_final[f'{CACHE}/{cfg["name"]}'] else 1
  if res['requests'] > need:
    viol.add('H1', 'H1:more-than-one-request-per-missing-file',
             f'{ctx}: {res["requests"]} requests, {need} needed', detail)
  if need == 0 and res['requests'] == 0:
    probes.inc('reuse_without_network')
  # H2: everything cached now -> zero requests, zero file-system effects
  res2 = _call(cfg, fs, net, url, None, None, None, viol, ctx + ' / reuse call', trace, detail)
  counter[0] += 1
  if res2['status'] != 'done':
    viol.add('H2', f"H2:reuse-call-fails:{res2.get('error')}", f'{ctx}: {res2.get("msg")}', detail)
    return
  if res2['requests'] != 0:
    viol.add('H2', 'H2:network-touched-although-cached', f'{ctx}: {res2["requests"]} requests on a complete cache', detail)
  else:
    probes.inc('reuse_without_network')
  if res2['effects']:
    viol.add('H2', 'H2:cache-rewritten-although-complete',
             f'{ctx}: effects on a complete cache: {[e[1:3] for e in res2["effects"]][:6]}', detail)


def _size_class(cfg):
  n = cfg['size']
  unit = COPY if cfg['compressed'] else BLOCK
  if n == 0:
    return '0'
  if n < unit - 1:
    return '<1'
  if n in (unit - 1, unit, unit + 1):
    return '~1'
  return '>1'


def execute(sc):
  from vsim import boot
  from vsim.simfs import _prefix_len
  from vsim.trace import Trace, Counters
  cfg = sc['config']
  boot.reset_sim_seconds()
  trace = Trace(keep=False)
  viol = _Viol()
  probes, faults = Counters(), Counters()
  distinct, nontrivial = set(), set()
  counter = [0]
  dl, data = _payload(cfg)
  if cfg['size'] == 0:
    probes.inc('empty_payload')
  if cfg['stale_partial'] != 'none':
    probes.inc('stale_partial_present')
  if cfg['chunks']:
    probes.inc('short_reads')
  if cfg['precached'] == 'compressed':
    probes.inc('precached_compressed_only')

  def case(stage, ekind, fkind, pos, inflight):
    key = hashlib.sha256(repr((_size_class(cfg), cfg['compressed'], stage, ekind, fkind, pos)).encode()).hexdigest()[:12]
    distinct.add(key)
    if inflight:
      nontrivial.add(key)

  # ---- golden call
  fs, net, url = _fresh(cfg)
  g = _call(cfg, fs, net, url, None, None, None, viol, 'golden', trace, {'fault': None})
  counter[0] += 1
  if g['status'] != 'done':
    viol.add('H1', f"H1:fault-free-call-fails:{g.get('error')}@{g.get('site')}", g.get('msg', ''))
    return _outcome(sc, trace, viol, probes, faults, distinct, nontrivial, counter, None)
  _after_faults(cfg, fs, net, url, viol, probes, trace, 'golden', {'fault': None}, counter)
  geff = g['effects']

  def run_single(fault):
    """fault: dict(domain=fs|net|read, ...) -> executes call-with-fault then the fault-free calls."""
    fs, net, url = _fresh(cfg)
    fs_plan = net_plan = read_plan = None
    if fault['domain'] == 'fs':
      fs_plan = {fault['at']: {k: v for k, v in fault.items() if k not in ('domain', 'at')}}
    elif fault['domain'] == 'net':
      net_plan = {0: {k: v for k, v in fault.items() if k != 'domain'}}
    else:
      read_plan = {fault['at']: {'kind': 'eio'}}
    ctx = 'fault ' + ','.join(f'{k}={v}' for k, v in sorted(fault.items()))
    detail = {'fault': fault}
    res = _call(cfg, fs, net, url, fs_plan, net_plan, read_plan, viol, ctx, trace, detail)
    counter[0] += 1
    for f in res['fired']:
      faults.inc(f['kind'] if f['kind'] != 'crash' else 'crash')
    _after_faults(cfg, fs, net, url, viol, probes, trace, ctx, detail, counter)
    return res

  if sc['mode'] == 'sweep':
    singles = []
    only = sc.get('only_faults')
    # crash points + I/O errors on every file-system effect
    for k, e in enumerate(geff):
      kind, path, nbytes, buffered = e[1], e[2], e[3], e[4]
      stage = _stage_of(path, cfg)
      seen = set()
      for pf in (['all'] if buffered == 0 else ['none', 'one', 'half', 'allbut1', 'blk', 'all']):
        n = _prefix_len(buffered, pf)
        if n in seen:
          continue
        seen.add(n)
        singles.append(({'domain': 'fs', 'at': k, 'kind': 'crash', 'when': 'after', 'prefix': pf},
                        (stage, kind, 'crash', pf, buffered > 0 or kind in ('create',))))
      if kind in ('create', 'write', 'close', 'rename', 'mkdir'):
        for fk in ('enospc', 'eio'):
          for part in (['none'] if kind != 'write' else ['none', 'half', 'all']):
            singles.append(({'domain': 'fs', 'at': k, 'kind': fk, 'partial': part},
                            (stage, kind, fk, part, kind in ('write', 'close', 'rename'))))
    singles.insert(0, ({'domain': 'fs', 'at': 0, 'kind': 'crash', 'when': 'before', 'prefix': 'all'},
                       ('download', 'none', 'crash', 'before-first', False)))
    # network faults (only if the golden call used the network)
    if g['requests']:
      offs = {0, 1, len(dl) // 2, max(0, len(dl) - 1)}
      for b in range(0, len(dl) + BLOCK, BLOCK):
        for d in (-1, 0, 1):
          if 0 <= b + d < len(dl):
            offs.add(b + d)
      for off in sorted(offs):
        if off >= len(dl) and len(dl) > 0:
          continue
        for fk in ('reset', 'eof'):
          if fk == 'eof' and off >= len(dl):
            continue
          singles.append(({'domain': 'net', 'kind': fk, 'at': off},
                          ('download', 'net-read', fk, 'b' if off % BLOCK in (0, 1, BLOCK - 1) else 'm', off > 0)))
      for st in (503, 404):
        singles.append(({'domain': 'net', 'kind': 'http_status', 'status': st},
                        ('download', 'request', 'http_status', str(st), False)))
      singles.append(({'domain': 'net', 'kind': 'connect'}, ('download', 'request', 'connect', '', False)))
    for k in range(g['file_reads']):
      singles.append(({'domain': 'read', 'at': k},
                      ('decompress', 'file-read', 'read_eio', 'first' if k == 0 else 'later', k > 0)))
    for fault, cls in singles:
      if only is not None and fault not in only:
        continue
      res = run_single(fault)
      if res['fired']:
        case(*cls)
        fk = fault['kind'] if fault['domain'] != 'read' else 'read_eio'
        _probe(probes, fault, fk, cls, geff)
  else:
    fs, net, url = _fresh(cfg)
    for fi, f in enumerate(sc['faults']):
      # dry call on a copy to learn this call's effect / read counts
      import copy
      fs2, net2 = copy.deepcopy(fs), copy.deepcopy(net)
      dry = _call(cfg, fs2, net2, url, None, None, None, _Viol(), 'dry', Trace(keep=False))
      fs_plan = net_plan = read_plan = None
      kind = f['kind']
      if kind in ('crash', 'enospc', 'eio'):
        if not dry['effects']:
          continue
        k = min(len(dry['effects']) - 1, int(f['frac'] * len(dry['effects'])))
        if kind == 'crash':
          fs_plan = {k: {'kind': 'crash', 'when': 'after', 'prefix': f['prefix']}}
        else:
          fs_plan = {k: {'kind': kind, 'partial': f['partial']}}
        e = dry['effects'][k]
        cls = (_stage_of(e[2], cfg), e[1], kind, f['prefix'] if kind == 'crash' else f['partial'], e[4] > 0)
      elif kind in ('reset', 'eof', 'http_status', 'connect'):
        if not dry['requests']:
          continue
        off = int(f['frac'] * max(1, len(dl)))
        if kind == 'eof' and len(dl) == 0:
          continue
        net_plan = {0: {'kind': kind, 'at': min(off, max(0, len(dl) - 1)), 'status': f['status']}}
        cls = ('download', 'net', kind, 'seq', off > 0)
      else:
        if not dry['file_reads']:
          continue
        read_plan = {min(dry['file_reads'] - 1, int(f['frac'] * dry['file_reads'])): {'kind': 'eio'}}
        cls = ('decompress', 'file-read', 'read_eio', 'seq', True)
      ctx = f'seq#{fi} {kind}'
      res = _call(cfg, fs, net, url, fs_plan, net_plan, read_plan, viol, ctx, trace, None)
      counter[0] += 1
      if res['fired']:
        faults.inc(kind)
        case(*cls[:4], cls[4] or fi > 0)
        _probe(probes, {'domain': 'x', 'kind': kind}, 'read_eio' if kind == 'read_eio' else kind, cls,
               dry['effects'], seq_effect=(dry['effects'][list(fs_plan)[0]] if fs_plan else None))
      fs.fired, net.fired = [], []
    _after_faults(cfg, fs, net, url, viol, probes, trace, 'seq', None, counter)
  return _outcome(sc, trace, viol, probes, faults, distinct, nontrivial, counter, g)


def _probe(probes, fault, fk, cls, geff, seq_effect=None):
  stage, ekind = cls[0], cls[1]
  if fk == 'crash':
    e = seq_effect if seq_effect is not None else (geff[fault['at']] if fault.get('domain') == 'fs' and fault['at'] < len(geff) else None)
    if e is not None:
      if e[1] == 'write' and e[4] > 0:
        probes.inc('crash_mid_block_write')
      if e[1] == 'close' and e[2].endswith('.partial'):
        probes.inc('crash_between_last_write_and_rename')
  if fk == 'enospc' and stage == 'decompress':
    probes.inc('enospc_during_decompress')
  if fk == 'eof':
    probes.inc('premature_eof')
  if fk == 'reset':
    probes.inc('connection_reset')
  if fk in ('http_status', 'connect'):
    probes.inc('http_error')
  if fk == 'read_eio':
    probes.inc('read_error_on_compressed')


def _simplify(sc):
  c = sc['config']

  def with_cfg(**kw):
    n = dict(sc)
    n['config'] = dict(c, **kw)
    n.pop('only_faults', None)
    return n
  if c['chunks']:
    yield with_cfg(chunks=None)
  if c['stale_partial'] != 'none':
    yield with_cfg(stale_partial='none')
  if c['precached'] != 'none':
    yield with_cfg(precached='none')
  if c['validate']:
    yield with_cfg(validate=False)
  for s in (1, 5000):
    if c['size'] > s:
      yield with_cfg(size=s)
  if c['entropy'] != 'low' and c['compressed']:
    yield with_cfg(entropy='low')


def narrow(sc, violation):
  d = violation.get('detail') or {}
  if sc.get('mode') != 'sweep' or not d.get('fault'):
    return None
  n = dict(sc)
  n['only_faults'] = [d['fault']]
  return n


SHRINK = {'list_keys': ('faults',), 'simplifiers': (_simplify,)}


def _outcome(sc, trace, viol, probes, faults, distinct, nontrivial, counter, g):
  from vsim import boot
  sample = None
  if g is not None:
    sample = {'config': sc['config'], 'mode': sc['mode'], 'calls': counter[0],
              'golden_effects': [f'{e[1]}:{posixpath.basename(e[2])}:{e[3]}' for e in g['effects']][:30],
              'golden_requests': g['requests'], 'golden_net_reads': g['net_reads']}
  return {'digest': trace.digest(), 'evaluations': counter[0], 'violations': viol.items,
          'probes': dict(probes), 'faults': dict(faults), 'distinct': sorted(distinct),
          'nontrivial': sorted(nontrivial), 'sim_rounds': 0, 'sim_seconds': float(boot.sim_seconds()),
          'sample': sample}
