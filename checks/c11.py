"""C11 - stochastic quantizers are unbiased, bounded, finite and accounted.

The random source and its evolution along the aggregator's state history are the
simulated dimension (DESIGN.md C11): the simulator owns the initial key, threads
the CompressionState through a history of rounds with retry/restart faults, and
evaluates monitors Q1..Q8 every round.
"""
import hashlib
import math

PROP = 'C11'
LEVEL = 'exploration'
RULE = ('A scenario is one compression aggregator (uniform +- arithmetic coding, rotated uniform, DRIVE, TernGrad; 2-17 levels) '
        'with a simulator-owned initial key and a history of 3-50 rounds threaded through its CompressionState: single-client '
        'rounds over leaf classes (random, size 1, constant, all-zero, on-grid, huge dynamic range, half-way), multi-client '
        'rounds with weights including zeros, probe rounds from one state with cohort [A] and cohort [A, A] (randomness across '
        'clients), repeated cohorts in consecutive rounds (randomness across rounds), retry and pickle-restart of the state; about a '
        'tenth are large-cohort probes (66-260 identical clients, weights selecting one position at a time, so the quantised '
        'tree of the client at each probed position is observed and must differ pairwise); a '
        'tenth of the scenarios is a long single-client history (R rounds) for the unbiasedness monitor. Monitors per round: '
        'Q1 finite + same structure, Q2 grid membership, Q3 distance to the exact weighted mean, Q4 pass-through, Q5 fresh '
        'randomness across clients, Q6 fresh randomness across rounds / key never repeats, Q7 running mean within the Hoeffding '
        'radius (delta 1e-12), Q8 bit accounting by the documented formula. evaluations = aggregator rounds monitored. distinct = '
        '(aggregator, levels, leaf-class set, weight pattern, op kinds); non-trivial = a round with a degenerate leaf class '
        '(constant/zero/size-1/huge), a zero-weight client, a twin probe or a restart.')
DISTINCT_MEASURE = 'distinct (aggregator, levels, leaf classes, weight pattern, op-kind sequence) hashes'
PROBES = ('constant_leaf', 'zero_leaf_under_drive', 'size_one_leaf', 'zero_weight_client', 'twin_clients_round',
          'restart_mid_history', 'huge_dynamic_range', 'on_grid_leaf', 'bias_history', 'retry_round', 'zero_leaf',
          'repeat_cohort_round', 'many_clients_round')
ASSUMPTIONS = [
    'Q7 is a statistical monitor: an unbiased quantizer passes at every seed except with probability <= 1e-12 per coordinate '
    'family; a bias below the Hoeffding radius is invisible',
    'Q2/Q3/Q4 are not applied where the grid lives in an internally keyed rotated space (rotated, DRIVE) beyond the stated norm bound',
    'DRIVE is checked for Q1, Q5, Q6, Q8 only (the property states unbiasedness for the grid quantizers and TernGrad)',
    'finite float32 inputs; tolerance 1e-5 x range',
]
REAL_VS_STUB = {
    'real': ['fedjax.aggregators.compression (all four aggregators, quantize functions, arithmetic_encoding_num_bits)',
             'fedjax.aggregators.walsh_hadamard', 'jax.random', 'haiku PRNGSequence', 'pickle (restart)'],
    'stub': ['the initial key, the round schedule (cohorts, weights, leaf classes) and the retry/restart faults come from the simulator'],
}
AGGS = ['uniform', 'uniform_arith', 'rotated', 'drive', 'terngrad']
LEAF_CLASSES = ['random', 'random', 'size1', 'constant', 'zero', 'ongrid', 'huge', 'half', 'offset', 'tiny']


def plan(tier):
  if tier == 'quick':
    return {'runs': 480, 'budget_s': 540, 'per_run_timeout_s': 500, 'selftest_runs': 12,
            'selftest_runs_full': 64, 'shrink_budget_s': 90, 'bias_rounds': 400}
  return {'runs': 14000, 'budget_s': 1800, 'per_run_timeout_s': 900, 'selftest_runs': 24,
          'selftest_runs_full': 128, 'shrink_budget_s': 180, 'bias_rounds': 2000}


def generate(seed, tier):
  from vsim.rng import Rng
  r = Rng(seed).sub('c11')
  g = r.sub('cfg')
  sc = {'agg': g.choice(AGGS), 'levels': g.choice([2, 3, 4, 5, 9, 16, 17]), 'key_seed': g.randint(0, 2**30),
        'data_seed': g.randint(0, 2**30), 'ops': []}
  o = r.sub('ops')
  if g.chance(0.1) and sc['agg'] != 'drive':
    sc['bias'] = {'rounds': plan(tier)['bias_rounds'], 'size': o.choice([1, 3, 8, 16]), 'cls': o.choice(['random', 'half', 'huge', 'offset', 'tiny'])}
    return sc
  if g.chance(0.09):
    n = o.choice([66, 130, 200, 260])
    sc['many'] = {'n': n, 'extra': [o.randint(0, n - 1) for _ in range(4)], 'warm_rounds': o.randint(0, 2)}
    return sc
  for _ in range(o.randint(3, 14)):
    k = o.weighted([('single', 6), ('multi', 5), ('twin', 2), ('repeat', 2), ('retry', 1), ('restart', 1)])
    if k == 'single':
      sc['ops'].append(['single', [[o.choice(LEAF_CLASSES), o.choice([1, 2, 3, 8, 33, 64])] for _ in range(o.randint(1, 3))],
                        o.randint(0, 2**30)])
    elif k == 'multi':
      n = o.randint(2, 5)
      sc['ops'].append(['multi', [[o.choice(LEAF_CLASSES), o.choice([2, 3, 8, 33])] for _ in range(o.randint(1, 2))],
                        [o.choice([0.0, 1.0, 1.0, 2.0, 5.0]) for _ in range(n)], o.randint(0, 2**30)])
    else:
      sc['ops'].append([k, o.randint(0, 2**30)])
  return sc


def _leaf(cls, size, levels, rs):
  import numpy as np
  if cls == 'size1':
    return np.array([rs.uniform(-2, 2)], np.float32), 'size1'
  if cls == 'constant':
    return np.full((size,), np.float32(rs.uniform(-2, 2))), 'constant'
  if cls == 'zero':
    return np.zeros((size,), np.float32), 'zero'
  if cls == 'ongrid':
    L1 = levels - 1
    if L1 & (L1 - 1) == 0:     # power of two: the whole integer grid is exact in float32
      v = rs.randint(0, L1 + 1, size=(size,)).astype(np.float32)
      v[0], v[-1] = 0, L1
      return v * np.float32(0.25), 'ongrid'
    v = rs.randint(0, 2, size=(size,)).astype(np.float32)   # only {min, max}: on the grid for every level count
    v[0], v[-1] = 0, 1
    return v * np.float32(3.0) - np.float32(1.0), 'ongrid'
  if cls == 'huge':
    v = rs.uniform(-1, 1, size=(size,)).astype(np.float32)
    v[0] = np.float32(1e6)
    if size > 1:
      v[1] = np.float32(1e-6)
    return v, 'huge'
  if cls == 'tiny':       # whole leaf of order 1e-8: the value range is below float32 machine epsilon
    v = (rs.uniform(-1, 1, size=(size,)) * 1e-8).astype(np.float32)
    return v, 'tiny'
  if cls == 'offset':     # spread tiny compared with the mean (a bias vector around 3000 +- 1)
    return (np.float32(rs.choice([3000.0, -250.0])) + rs.uniform(-1, 1, size=(size,))).astype(np.float32), 'offset'
  if cls == 'half':
    L1 = levels - 1
    v = (rs.randint(0, L1, size=(size,)) + 0.5).astype(np.float32)
    v[0], v[-1] = 0, L1
    return v, 'half'
  return rs.uniform(-1, 1, size=(size,)).astype(np.float32), 'random'


def _agg_obj(name, levels, key):
  from fedjax.aggregators import compression as ag
  if name == 'uniform':
    return ag.uniform_stochastic_quantizer(levels, key)
  if name == 'uniform_arith':
    return ag.uniform_stochastic_quantizer(levels, key, 'arithmetic')
  if name == 'rotated':
    return ag.rotated_uniform_stochastic_quantizer(levels, key)
  if name == 'drive':
    return ag.structured_drive_quantizer(key)
  return ag.terngrad_quantizer(key)


def _np_arith_bits(v):
  """Documented arithmetic-coding estimate recomputed in float64 from the returned values."""
  import numpy as np
  v = np.nan_to_num(np.asarray(v, np.float64)).ravel()
  uniq, counts = np.unique(v, return_counts=True)
  p = counts / counts.sum()
  ent = -np.sum(p * np.log2(p))
  d, k = v.size, uniq.size
  return k * np.log2(np.e * (d + k) / k) + d * ent + 64 + 2


def execute(sc):
  import jax
  import jax.numpy as jnp
  import numpy as np
  import pickle
  from vsim.trace import Trace, Counters
  trace = Trace(keep=False)
  probes, faults = Counters(), Counters()
  viols, sigs = [], set()
  name, L = sc['agg'], sc['levels']
  key0 = jax.random.PRNGKey(sc['key_seed'])
  agg = _agg_obj(name, L, key0)
  state = agg.init()
  rs = np.random.RandomState(sc['data_seed'])
  evals = 0
  keys_seen = {np.asarray(state.rng).tobytes()}
  kinds, classes = [], set()
  nontrivial = False

  def violation(clause, sig, msg):
    if sig not in sigs:
      sigs.add(sig)
      viols.append({'clause': clause, 'signature': sig, 'message': msg})

  def tree_of(spec):
    leaves, cls = {}, []
    for i, (c, size) in enumerate(spec):
      v, c2 = _leaf(c, size, L, rs)
      shape2 = {8: (2, 4), 33: (3, 11), 64: (8, 8)}.get(v.size)
      if shape2 is not None and (i + v.size + sc['data_seed']) % 2:
        v = v.reshape(shape2)      # matrices as well as vectors
      leaves[f'l{i}'] = v
      cls.append(c2)
    return leaves, cls

  def to_jax(t):
    return {k: jnp.asarray(v) for k, v in t.items()}

  def expected_bits(tree, n_clients_out=None):
    tot = sum(int(np.size(v)) for v in tree.values())
    nl = len(tree)
    if name in ('uniform', 'rotated'):
      return math.log2(L) * tot + 64 * nl
    if name == 'drive':
      return tot + 64 * nl
    if name == 'terngrad':
      return math.log2(3) * tot + 64 * nl
    return None

  def run_round(st, clients, label, check_bits=True):
    """clients: [(cid, np tree, weight)] -> (aggregate as np dict, new_state) with Q1/Q6(key)/Q8."""
    nonlocal evals
    inputs = [(cid, to_jax(t), w) for cid, t, w in clients]
    out, new = agg.apply(inputs, st)
    evals += 1
    got = {k: np.asarray(v) for k, v in out.items()}
    ref = clients[0][1]
    if sorted(got) != sorted(ref) or any(got[k].shape != ref[k].shape or got[k].dtype != ref[k].dtype for k in ref):
      violation('Q1', f'Q1:structure-or-dtype-changed:{name}', f'{label}: {[(k, v.dtype, v.shape) for k, v in got.items()]}')
      return None, new
    if not all(np.all(np.isfinite(v)) for v in got.values()):
      violation('Q1', f'Q1:non-finite-output:{name}', f'{label}: inputs {[ (k, v.tolist()[:6]) for k, v in ref.items()]} -> '
                f'{[(k, v.tolist()[:6]) for k, v in got.items()]}')
    nb = float(np.asarray(new.num_bits)) - float(np.asarray(st.num_bits))
    if check_bits:
      want = expected_bits(ref)
      if want is not None:
        if abs(nb - want) > 1e-3 * max(1.0, want):
          violation('Q8', f'Q8:bit-count-increment-differs-from-formula:{name}', f'{label}: +{nb} bits, formula {want}')
      elif len(clients) == 1 and clients[0][2] > 0:
        want = sum(_np_arith_bits(v) for v in got.values())
        if abs(nb - want) > 1e-3 * max(1.0, want) + 0.5:
          violation('Q8', f'Q8:bit-count-increment-differs-from-formula:{name}', f'{label}: +{nb} bits, recomputed {want}')
      elif not (np.isfinite(nb) and nb > 0):
        violation('Q8', f'Q8:bit-count-not-increasing:{name}', f'{label}: +{nb}')
    kb = np.asarray(new.rng).tobytes()
    if kb in keys_seen:
      violation('Q6', f'Q6:aggregator-key-repeats-along-history:{name}', f'{label}')
    keys_seen.add(kb)
    return got, new

  def q2_q4_single(tree, cls, got, label):
    for (k, v), c in zip(tree.items(), cls):
      o = got[k].astype(np.float64).ravel()
      v64 = v.astype(np.float64).ravel()
      if name in ('uniform', 'uniform_arith'):
        lo, hi = v64.min(), v64.max()
        rng_ = hi - lo
        tol = 1e-5 * max(rng_, 1e-30) + 8e-7 * max(abs(lo), abs(hi))
        if rng_ == 0:
          if not np.all(np.abs(o - v64) <= tol):
            violation('Q4', f'Q4:constant-or-zero-leaf-not-passed-through:{name}', f'{label}: {v.tolist()[:5]} -> {o.tolist()[:5]}')
          continue
        step = rng_ / (L - 1)
        # float32 arithmetic at magnitude |v|: a few ulps of max|v| in every computed value
        tol = 1e-5 * rng_ + 8e-7 * max(abs(lo), abs(hi))
        lvl = np.rint((o - lo) / step)
        on_grid = np.abs(o - (lo + lvl * step)) <= tol
        near = np.abs(o - v64) <= step + 2 * tol       # one of the two neighbouring levels <=> on the grid and within one step
        ok = on_grid & near
        if not np.all(ok):
          i = int(np.argmin(ok))
          violation('Q2', f'Q2:output-not-a-neighbouring-grid-level:{name}',
                    f'{label} ({c}): input {v64[i]} in [{lo},{hi}] with {L} levels (step {step}) -> {o[i]}')
        if (o < lo - tol).any() or (o > hi + tol).any():
          violation('Q2', f'Q2:output-outside-input-range:{name}', f'{label}: range [{lo},{hi}] output [{o.min()},{o.max()}]')
        if c == 'ongrid' and not np.all(np.abs(o - v64) <= tol):
          violation('Q4', f'Q4:on-grid-leaf-not-passed-through:{name}', f'{label}: {v.tolist()[:6]} -> {o.tolist()[:6]}')
      elif name == 'terngrad':
        sigma = v64.std()
        clipped = np.where(np.abs(v64) > 2.5 * sigma, 2.5 * sigma * np.sign(v64), v64)
        s = np.abs(clipped).max() if clipped.size else 0.0
        # float32 rounding of sigma: for a (near-)constant leaf 2.5*sigma is a rounding residue, not exactly 0
        tol = max(1e-5, 3e-7 * v64.size) * max(s, float(np.abs(v64).max()), 1e-30) + 1e-30
        ok = (np.abs(o) <= tol) | (np.abs(np.abs(o) - s) <= tol)
        sign_ok = (np.abs(o) <= tol) | (np.sign(o) == np.sign(v64))
        if not np.all(ok & sign_ok):
          i = int(np.argmin(ok & sign_ok))
          violation('Q2', 'Q2:terngrad-output-not-in-{-s,0,+s}', f'{label}: input {v64[i]} s={s} -> {o[i]}')
        if c == 'zero' and np.any(o != 0):
          violation('Q4', 'Q4:constant-or-zero-leaf-not-passed-through:terngrad', f'{label}: zero leaf -> {o.tolist()[:5]}')

  def q3_multi(clients, got, label):
    wsum = sum(w for _, _, w in clients)
    for k in clients[0][1]:
      if wsum > 0:
        exact = sum(w * t[k].astype(np.float64) for _, t, w in clients) / wsum
      else:
        exact = np.zeros_like(clients[0][1][k], np.float64)
      o = got[k].astype(np.float64)
      act = [(t, w) for _, t, w in clients if w > 0] or [(clients[0][1], 0.0)]
      if name in ('uniform', 'uniform_arith'):
        bound = max((t[k].max() - t[k].min()) / (L - 1) for t, _ in act) if wsum > 0 else 0.0
        # float32 rounding of the weighted mean scales with the INPUT magnitudes (they may cancel in the mean)
        vmax = max(float(np.max(np.abs(t[k]))) for t, _ in act)
        tol = 1e-5 * max(float(np.max(np.abs(exact))), vmax) + 1e-5 * bound + 1e-30
        if np.max(np.abs(o - exact)) > bound + tol:
          violation('Q3', f'Q3:aggregate-further-than-one-step-from-exact-weighted-mean:{name}',
                    f'{label}: leaf {k} max |agg-mean| {np.max(np.abs(o - exact))} > step bound {bound} (weights {[w for _, _, w in clients]})')
      elif name == 'terngrad':
        def clip(v):
          v = v.astype(np.float64)
          s_ = v.std()
          return np.where(np.abs(v) > 2.5 * s_, 2.5 * s_ * np.sign(v), v)
        exactc = sum(w * clip(t[k]) for t, w in act) / wsum if wsum > 0 else exact
        bound = max(np.abs(clip(t[k])).max() for t, _ in act) if wsum > 0 else 0.0
        # float32 sigma of a (near-)constant leaf is a rounding residue of size ~1e-7*|v|, not exactly 0
        vmax = max(float(np.max(np.abs(t[k]))) for t, _ in act)
        nres = max(1e-6, 3e-7 * clients[0][1][k].size)     # float32 mean/std of n equal values: residue ~ n * eps
        if np.max(np.abs(o - exactc)) > bound * (1 + 1e-5) + nres * max(bound, vmax) + 1e-30:
          violation('Q3', 'Q3:aggregate-further-than-s-from-clipped-weighted-mean:terngrad', f'{label}: leaf {k}')
      elif name == 'rotated':
        size = clients[0][1][k].size
        dpad = 1 << max(0, (size - 1).bit_length())
        bound = max(2 * np.linalg.norm(t[k].astype(np.float64)) * math.sqrt(dpad) / (L - 1) for t, _ in act) if wsum > 0 else 0.0
        nmax = max(float(np.linalg.norm(t[k])) for t, _ in act)
        if np.linalg.norm(o - exact) > bound * (1 + 1e-4) + 1e-5 * max(np.linalg.norm(exact), nmax) + 1e-30:
          violation('Q3', 'Q3:aggregate-outside-norm-bound-of-exact-weighted-mean:rotated',
                    f'{label}: leaf {k} |agg-mean|={np.linalg.norm(o - exact)} bound {bound}')

  # ------------------------------------------------------------ bias history
  if 'bias' in sc:
    b = sc['bias']
    probes.inc('bias_history')
    v, c = _leaf(b['cls'], b['size'], L, rs)
    tree = {'l0': v}
    acc = np.zeros_like(v, np.float64)
    R = b['rounds']
    for r_ in range(R):
      got, state = run_round(state, [(b'a', tree, 1.0)], f'bias round {r_}', check_bits=(r_ < 3))
      if got is None:
        break
      acc += got['l0']
    mean = acc / R
    v64 = v.astype(np.float64)
    d = v.size
    if name == 'terngrad':
      sg = v64.std()
      target = np.where(np.abs(v64) > 2.5 * sg, 2.5 * sg * np.sign(v64), v64)
      width = np.abs(target).max()
    elif name == 'rotated':
      target = v64
      dpad = 1 << max(0, (d - 1).bit_length())
      # per-coordinate error after the inverse rotation lies in [-w, w] with w = sqrt(dpad) * step_y, so the Hoeffding
      # range is 2w (for the plain grid quantizers the range is one step)
      width = 2 * (2 * np.linalg.norm(v64) * math.sqrt(dpad) / (L - 1))
    else:
      target = v64
      width = (v64.max() - v64.min()) / (L - 1)
    radius = width * math.sqrt(math.log(2 * d / 1e-12) / (2 * R)) + 1e-5 * float(np.abs(v64).max()) + 1e-30
    err = float(np.max(np.abs(mean - target)))
    if err > radius:
      violation('Q7', f'Q7:running-mean-outside-hoeffding-radius:{name}',
                f'{name} L={L} {b["cls"]} size {d}: after {R} rounds max |mean - input| = {err} > radius {radius} (width {width})')
    trace.ev('bias', mean=mean.tolist(), R=R)
    return _out(trace, viols, probes, faults, ['bias'], {c}, evals, sc, True)

  # ------------------------------------------------------------ large cohort: randomness across MANY clients
  if 'many' in sc:
    # N identical clients; weights select ONE position s at a time (weight-0 clients still consume their key), so the
    # aggregate IS the quantised tree of the client at position s.  All calls start from the same state, hence the same
    # key sequence: two positions give the same aggregate iff they were quantised with the same randomness.
    m = sc['many']
    N = m['n']
    probes.inc('many_clients_round')
    v = rs.uniform(-1, 1, size=(256,)).astype(np.float32)
    tree = {'l0': v}
    for w_ in range(m['warm_rounds']):
      _, state = run_round(state, [(b'a', tree, 1.0)], f'warm-up {w_}')
    S = sorted({p_ for p_ in (0, 1, 2, 31, 32, 33, 63, 64, 65, 127, 128, 129, 191, 192, 255, 256, N - 1) if p_ < N}
               | {e_ % N for e_ in m['extra']})
    qs = {}
    # round 0: the structured position set S; rounds 1 and 2 (state threaded): the first positions again, so that
    # randomness re-used across ROUNDS at another position (e.g. client i+1 of round t == client i of round t+1)
    # shows up as well.  Every (round, position) must give a different quantisation of the same tree.
    for t_ in range(3):
      nxt = None
      for s_ in (S if t_ == 0 else [p_ for p_ in (0, 1, 2, 3, 4, 63, 64, 65) if p_ < N]):
        cohort = [(b'c%d' % i, tree, 1.0 if i == s_ else 0.0) for i in range(N)]
        got, nxt = run_round_nokey(agg, state, cohort)
        evals += 1
        if got is None or not np.all(np.isfinite(got['l0'])):
          violation('Q1', f'Q1:non-finite-output:{name}', f'{name} L={L}: {N} clients, weight on position {s_}')
          continue
        qs[(t_, s_)] = got['l0']
      if nxt is not None:
        state = nxt
    pos = sorted(qs)
    for i_, a_ in enumerate(pos):
      for b_ in pos[i_ + 1:]:
        if np.array_equal(qs[a_], qs[b_]):
          if a_[0] == b_[0]:
            violation('Q5', f'Q5:two-clients-quantized-with-the-same-randomness:{name}',
                      f'{name} L={L}: in a cohort of {N} identical clients the clients at positions {a_[1]} and {b_[1]} '
                      f'are quantised identically (256 coordinates)')
          else:
            violation('Q6', f'Q6:randomness-reused-across-rounds:{name}',
                      f'{name} L={L}: client at position {a_[1]} of round {a_[0]} and client at position {b_[1]} of round '
                      f'{b_[0]} (consecutive states) are quantised identically (256 coordinates)')
          break
    trace.ev('many', n=N, positions=[list(p_) for p_ in pos],
             h=[hashlib.sha256(qs[p_].tobytes()).hexdigest()[:8] for p_ in pos])
    return _out(trace, viols, probes, faults, ['many', N], {'random'}, evals, sc, True)

  # ------------------------------------------------------------ mixed history
  last = None   # (clients) of the previous round for 'repeat'
  last_out = None
  for oi, op in enumerate(sc['ops']):
    k = op[0]
    kinds.append(k)
    label = f'{name} L={L} op#{oi} {k}'
    if k == 'single':
      tree, cls = tree_of(op[1])
      classes.update(cls)
      for c in cls:
        if c == 'constant':
          probes.inc('constant_leaf')
        if c == 'zero':
          probes.inc('zero_leaf')
          if name == 'drive':
            probes.inc('zero_leaf_under_drive')
        if c == 'size1':
          probes.inc('size_one_leaf')
        if c == 'huge':
          probes.inc('huge_dynamic_range')
        if c == 'ongrid':
          probes.inc('on_grid_leaf')
      if set(cls) & {'constant', 'zero', 'size1', 'huge'}:
        nontrivial = True
      clients = [(b'a', tree, 1.0)]
      got, state = run_round(state, clients, label)
      if got is not None:
        q2_q4_single(tree, cls, got, label)
      last, last_out = clients, got
    elif k == 'multi':
      clients = []
      for j, w in enumerate(op[2]):
        tree, cls = tree_of(op[1])
        classes.update(cls)
        clients.append((b'c%d' % j, tree, w))
      if all(w == 0 for _, _, w in clients):
        clients[0] = (clients[0][0], clients[0][1], 1.0)
      if any(w == 0 for _, _, w in clients):
        probes.inc('zero_weight_client')
        nontrivial = True
      got, state = run_round(state, clients, label)
      if got is not None:
        q3_multi(clients, got, label)
      last, last_out = clients, got
    elif k == 'twin':
      # cohort [A] and cohort [A, A] from the SAME state: the first client draws the same key in both calls, so
      # the aggregates coincide exactly iff the second client re-used the first client's randomness
      probes.inc('twin_clients_round')
      nontrivial = True
      v, _ = _leaf('half', 64, L, rs)
      if name == 'terngrad':
        v = (rs.randint(0, 2, size=(64,)) - 0.5).astype(np.float32)
        v[0] = 1.0
      if name in ('rotated', 'drive'):
        v = rs.uniform(-1, 1, size=(64,)).astype(np.float32)
      tree = {'l0': v}
      one, _ = run_round(state, [(b'a', tree, 1.0)], label + ' [A]', check_bits=False)
      keys_seen.discard(None)
      two, new_state = run_round_nokey(agg, state, [(b'a', tree, 1.0), (b'b', tree, 1.0)])
      evals += 1
      if one is not None and two is not None and np.array_equal(one['l0'], two['l0']):
        violation('Q5', f'Q5:two-clients-quantized-with-the-same-randomness:{name}',
                  f'{label}: aggregate of two identical clients equals the single-client aggregate bit for bit')
      state = new_state
      keys_seen.add(np.asarray(state.rng).tobytes())
      last, last_out = None, None
    elif k == 'repeat':
      # the same cohort in two consecutive rounds (state threaded): a 256-coordinate random leaf makes a chance
      # coincidence of two independent quantizations impossible in practice (< 1e-40)
      probes.inc('repeat_cohort_round')
      v = rs.uniform(-1, 1, size=(256,)).astype(np.float32)
      cohort = [(b'a', {'l0': v}, 1.0)]
      g1, state = run_round(state, cohort, label + ' first')
      g2, state = run_round(state, cohort, label + ' second')
      if g1 is not None and g2 is not None and np.array_equal(g1['l0'], g2['l0']):
        violation('Q6', f'Q6:same-cohort-in-consecutive-rounds-gives-identical-aggregate:{name}', f'{label}')
      last, last_out = cohort, g2
    elif k == 'retry':
      if last is None:
        continue
      probes.inc('retry_round')
      faults.inc('duplicate_delivery')
      a1, s1 = run_round_nokey(agg, state, last)
      a2, s2 = run_round_nokey(agg, state, last)
      evals += 2
      if a1 is not None and a2 is not None and not all(np.array_equal(a1[kk], a2[kk], equal_nan=True) for kk in a1):
        violation('Q6', f'Q6:same-state-and-cohort-give-different-aggregates:{name}', f'{label}: randomness not carried in the state')
    elif k == 'restart':
      probes.inc('restart_mid_history')
      faults.inc('restart')
      nontrivial = True
      state = pickle.loads(pickle.dumps(state))
      agg = _agg_obj(name, L, jax.random.PRNGKey(sc['key_seed']))
  trace.ev('hist', kinds=kinds, bits=float(np.asarray(state.num_bits)), key=np.asarray(state.rng).tolist(), viols=sorted(sigs))
  return _out(trace, viols, probes, faults, kinds, classes, evals, sc, nontrivial)


def _is_on_grid_class(v, L):
  """True if every value is exactly min or max (deterministic under the uniform quantizer)."""
  import numpy as np
  return bool(np.all((v == v.min()) | (v == v.max())))


def run_round_nokey(agg, st, clients):
  import jax.numpy as jnp
  import numpy as np
  inputs = [(cid, {k: jnp.asarray(v) for k, v in t.items()}, w) for cid, t, w in clients]
  try:
    out, new = agg.apply(inputs, st)
  except Exception:
    return None, st
  return {k: np.asarray(v) for k, v in out.items()}, new


def _out(trace, viols, probes, faults, kinds, classes, evals, sc, nontrivial):
  hkey = hashlib.sha256(repr((sc['agg'], sc['levels'], sorted(classes), kinds)).encode()).hexdigest()[:12]
  sample = {'agg': sc['agg'], 'levels': sc['levels'], 'many': sc.get('many'), 'ops': [o[:2] if o[0] in ('single', 'multi') else o[:1] for o in sc['ops']][:14],
            'bias': sc.get('bias')}
  return {'digest': trace.digest(), 'evaluations': max(evals, 1), 'violations': viols, 'probes': dict(probes),
          'faults': dict(faults), 'distinct': [hkey], 'nontrivial': [hkey] if nontrivial else [], 'sim_rounds': evals,
          'sim_seconds': 0.0, 'sample': sample}


def _simplify(sc):
  if 'many' in sc:
    if sc['many']['warm_rounds']:
      yield dict(sc, many=dict(sc['many'], warm_rounds=0))
    return
  if 'bias' in sc:
    if sc['bias']['size'] > 1:
      yield dict(sc, bias=dict(sc['bias'], size=1))
    if sc['bias']['cls'] != 'random':
      yield dict(sc, bias=dict(sc['bias'], cls='random'))
    return
  for i, op in enumerate(sc['ops']):
    if op[0] in ('single', 'multi') and len(op[1]) > 1:
      for j in range(len(op[1])):
        yield dict(sc, ops=sc['ops'][:i] + [[op[0], op[1][:j] + op[1][j + 1:]] + op[2:]] + sc['ops'][i + 1:])
    if op[0] in ('single', 'multi'):
      for j, (c, s) in enumerate(op[1]):
        if s > 2:
          yield dict(sc, ops=sc['ops'][:i] + [[op[0], op[1][:j] + [[c, 2]] + op[1][j + 1:]] + op[2:]] + sc['ops'][i + 1:])
    if op[0] == 'multi' and len(op[2]) > 2:
      yield dict(sc, ops=sc['ops'][:i] + [[op[0], op[1], op[2][:-1], op[3]]] + sc['ops'][i + 1:])


SHRINK = {'list_keys': ('ops',), 'simplifiers': (_simplify,)}
